/* c19_capi.c - the C back end of check C19: interprets a scenario program through the C mocking interface only
 * (mock_c(), mock_scope_c() and the three function tables of MockSupport_c.h). Compiled as C. */
#include <string.h>
#include <stdio.h>
#include "CppUTestExt/MockSupport_c.h"
#include "c19_prog.h"

/* ---- custom types */
int c19_T_equal(const void* a, const void* b) { return ((const c19_T*)a)->key == ((const c19_T*)b)->key; }
const char* c19_T_tostring(const void* a) { static char buf[32]; snprintf(buf, sizeof buf, "T(key=%d)", ((const c19_T*)a)->key); return buf; }
void c19_T_copy(void* dst, const void* src) { *(c19_T*)dst = *(const c19_T*)src; }
int c19_U_equal(const void* a, const void* b) { return ((const c19_T*)a)->other == ((const c19_T*)b)->other ? 7 : 0; }
const char* c19_U_tostring(const void* a) { static char buf[32]; snprintf(buf, sizeof buf, "U(other=%d)", ((const c19_T*)a)->other); return buf; }
void c19_U_copy(void* dst, const void* src) { ((c19_T*)dst)->other = ((const c19_T*)src)->other; }

/* ---- re-entrant type R: the C callbacks make their nested call through the C interface */
c19_nest_cfg c19_nest;
int c19_nest_calls;
long long c19_nest_sum;
void c19_nest_log(long long returned) { c19_nest_calls++; c19_nest_sum += c19_nest_calls * (returned + 100); }
static void nested_call_c(int key)
{
    (void)key;
    c19_nest_log(mock_scope_c("n")->actualCall("h")->withIntParameters("x", 1)->returnIntValueOrDefault(-5));
}
int c19_R_equal(const void* a, const void* b)
{
    if (c19_nest.in_equal) nested_call_c(((const c19_T*)a)->key);
    return ((const c19_T*)a)->key == ((const c19_T*)b)->key;
}
const char* c19_R_tostring(const void* a)
{
    static char buf[32];
    if (c19_nest.in_tostring) nested_call_c(((const c19_T*)a)->key);
    snprintf(buf, sizeof buf, "R(key=%d)", ((const c19_T*)a)->key);
    return buf;
}
void c19_R_copy(void* dst, const void* src)
{
    if (c19_nest.in_copy) nested_call_c(((const c19_T*)src)->key);
    *(c19_T*)dst = *(const c19_T*)src;
}

static MockSupport_c* kept_handle;
static MockSupport_c* support(const c19_op* op)
{
    if (op->scope == C19_KEPT) return kept_handle;
    return op->scope ? mock_scope_c(op->scope) : mock_c();
}

static void obs_double(c19_obs* o, double d) { memcpy(&o->dbits, &d, sizeof d); }
static void obs_string(c19_obs* o, const char* s)
{
    o->p = s;
    o->has_s = s != NULL;
    if (s) { strncpy(o->s, s, sizeof o->s - 1); o->s[sizeof o->s - 1] = 0; }
}

static void obs_value(c19_obs* o, MockValue_c v)
{
    o->tag = (int)v.type;
    switch (v.type) {
    case MOCKVALUETYPE_BOOL: o->i = v.value.boolValue; break;
    case MOCKVALUETYPE_INTEGER: o->i = v.value.intValue; break;
    case MOCKVALUETYPE_UNSIGNED_INTEGER: o->u = v.value.unsignedIntValue; break;
    case MOCKVALUETYPE_LONG_INTEGER: o->i = v.value.longIntValue; break;
    case MOCKVALUETYPE_UNSIGNED_LONG_INTEGER: o->u = v.value.unsignedLongIntValue; break;
    case MOCKVALUETYPE_LONG_LONG_INTEGER: o->i = v.value.longLongIntValue; break;
    case MOCKVALUETYPE_UNSIGNED_LONG_LONG_INTEGER: o->u = v.value.unsignedLongLongIntValue; break;
    case MOCKVALUETYPE_DOUBLE: obs_double(o, v.value.doubleValue); break;
    case MOCKVALUETYPE_STRING: obs_string(o, v.value.stringValue); break;
    case MOCKVALUETYPE_POINTER: o->p = v.value.pointerValue; break;
    case MOCKVALUETYPE_CONST_POINTER: o->p = v.value.constPointerValue; break;
    case MOCKVALUETYPE_FUNCTIONPOINTER: o->fp = v.value.functionPointerValue; break;
    case MOCKVALUETYPE_MEMORYBUFFER: o->p = v.value.memoryBufferValue; break;
    case MOCKVALUETYPE_OBJECT: o->p = v.value.objectValue; break;
    }
}

void c19_run_c(const c19_op* ops, int from, int to, c19_obs* obs, unsigned char (*out)[C19_SLOTSIZE])
{
    /* the two handles are static so that the teardown part of a program can continue where the body stopped */
    static MockExpectedCall_c* e;
    static MockActualCall_c* a;
    int k;
    for (k = from; k < to; k++) {
        const c19_op* op = &ops[k];
        const c19_val* v = &op->v;
        c19_obs* o = &obs[k];
        switch (op->code) {
        case C19_STRICT: support(op)->strictOrder(); break;
        case C19_EXPECT_ONE: e = support(op)->expectOneCall(op->name); break;
        case C19_EXPECT_N: e = support(op)->expectNCalls(op->n, op->name); break;
        case C19_EXPECT_NONE: support(op)->expectNoCall(op->name); break;
        case C19_ACTUAL: a = support(op)->actualCall(op->name); break;
        case C19_S_HAS: o->i = support(op)->hasReturnValue(); break;
        case C19_S_RETVAL: obs_value(o, support(op)->returnValue()); break;
        case C19_S_GET:
            switch (op->kind) {
            case C19_BOOL: o->i = support(op)->boolReturnValue(); break;
            case C19_INT: o->i = support(op)->intReturnValue(); break;
            case C19_UINT: o->u = support(op)->unsignedIntReturnValue(); break;
            case C19_LONG: o->i = support(op)->longIntReturnValue(); break;
            case C19_ULONG: o->u = support(op)->unsignedLongIntReturnValue(); break;
            case C19_LL: o->i = support(op)->longLongIntReturnValue(); break;
            case C19_ULL: o->u = support(op)->unsignedLongLongIntReturnValue(); break;
            case C19_DOUBLE: obs_double(o, support(op)->doubleReturnValue()); break;
            case C19_STRING: obs_string(o, support(op)->stringReturnValue()); break;
            case C19_PTR: o->p = support(op)->pointerReturnValue(); break;
            case C19_CPTR: o->p = support(op)->constPointerReturnValue(); break;
            case C19_FPTR: o->fp = support(op)->functionPointerReturnValue(); break;
            }
            break;
        case C19_S_GETDEF:
            switch (op->kind) {
            case C19_BOOL: o->i = support(op)->returnBoolValueOrDefault((int)v->i); break;
            case C19_INT: o->i = support(op)->returnIntValueOrDefault((int)v->i); break;
            case C19_UINT: o->u = support(op)->returnUnsignedIntValueOrDefault((unsigned int)v->u); break;
            case C19_LONG: o->i = support(op)->returnLongIntValueOrDefault((long)v->i); break;
            case C19_ULONG: o->u = support(op)->returnUnsignedLongIntValueOrDefault((unsigned long)v->u); break;
            case C19_LL: o->i = support(op)->returnLongLongIntValueOrDefault(v->i); break;
            case C19_ULL: o->u = support(op)->returnUnsignedLongLongIntValueOrDefault(v->u); break;
            case C19_DOUBLE: obs_double(o, support(op)->returnDoubleValueOrDefault(v->d)); break;
            case C19_STRING: obs_string(o, support(op)->returnStringValueOrDefault(v->s)); break;
            case C19_PTR: o->p = support(op)->returnPointerValueOrDefault(v->p); break;
            case C19_CPTR: o->p = support(op)->returnConstPointerValueOrDefault(v->p); break;
            case C19_FPTR: o->fp = support(op)->returnFunctionPointerValueOrDefault(v->fp); break;
            }
            break;
        case C19_SETDATA:
            switch (v->kind) {
            case C19_BOOL: support(op)->setBoolData(op->name, (int)v->i); break;
            case C19_INT: support(op)->setIntData(op->name, (int)v->i); break;
            case C19_UINT: support(op)->setUnsignedIntData(op->name, (unsigned int)v->u); break;
            case C19_DOUBLE: support(op)->setDoubleData(op->name, v->d); break;
            case C19_STRING: support(op)->setStringData(op->name, v->s); break;
            case C19_PTR: support(op)->setPointerData(op->name, v->p); break;
            case C19_CPTR: support(op)->setConstPointerData(op->name, v->p); break;
            case C19_FPTR: support(op)->setFunctionPointerData(op->name, v->fp); break;
            case C19_OBJ: support(op)->setDataObject(op->name, op->type, v->p); break;
            case C19_COBJ: support(op)->setDataConstObject(op->name, op->type, v->p); break;
            }
            break;
        case C19_GETDATA: obs_value(o, support(op)->getData(op->name)); break;
        case C19_DISABLE: support(op)->disable(); break;
        case C19_ENABLE: support(op)->enable(); break;
        case C19_IOC: support(op)->ignoreOtherCalls(); break;
        case C19_CHECK: support(op)->checkExpectations(); break;
        case C19_LEFT: o->i = support(op)->expectedCallsLeft(); break;
        case C19_CLEAR: support(op)->clear(); break;
        case C19_CRASHONFAIL: support(op)->crashOnFailure(op->n); break;
        case C19_INSTALL_CMP:
            if (op->n == 0) support(op)->installComparator(op->type, c19_T_equal, c19_T_tostring);
            else if (op->n == 1) support(op)->installComparator(op->type, c19_U_equal, c19_U_tostring);
            else support(op)->installComparator(op->type, c19_R_equal, c19_R_tostring);
            break;
        case C19_INSTALL_CPY: support(op)->installCopier(op->type, op->n == 0 ? c19_T_copy : op->n == 1 ? c19_U_copy : c19_R_copy); break;
        case C19_REMOVE_ALL: support(op)->removeAllComparatorsAndCopiers(); break;
        case C19_SELECT: kept_handle = op->scope ? mock_scope_c(op->scope) : mock_c(); break;

        case C19_E_PARAM:
            switch (v->kind) {
            case C19_BOOL: e = e->withBoolParameters(op->name, (int)v->i); break;
            case C19_INT: e = e->withIntParameters(op->name, (int)v->i); break;
            case C19_UINT: e = e->withUnsignedIntParameters(op->name, (unsigned int)v->u); break;
            case C19_LONG: e = e->withLongIntParameters(op->name, (long)v->i); break;
            case C19_ULONG: e = e->withUnsignedLongIntParameters(op->name, (unsigned long)v->u); break;
            case C19_LL: e = e->withLongLongIntParameters(op->name, v->i); break;
            case C19_ULL: e = e->withUnsignedLongLongIntParameters(op->name, v->u); break;
            case C19_DOUBLE: e = e->withDoubleParameters(op->name, v->d); break;
            case C19_DOUBLE_TOL: e = e->withDoubleParametersAndTolerance(op->name, v->d, v->tol); break;
            case C19_STRING: e = e->withStringParameters(op->name, v->s); break;
            case C19_PTR: e = e->withPointerParameters(op->name, v->p); break;
            case C19_CPTR: e = e->withConstPointerParameters(op->name, v->p); break;
            case C19_FPTR: e = e->withFunctionPointerParameters(op->name, v->fp); break;
            case C19_MEMBUF: e = e->withMemoryBufferParameter(op->name, (const unsigned char*)v->p, v->size); break;
            case C19_OBJ: e = e->withParameterOfType(op->type, op->name, v->p); break;
            }
            break;
        case C19_E_OUT: e = e->withOutputParameterReturning(op->name, v->p, v->size); break;
        case C19_E_OUT_TYPED: e = e->withOutputParameterOfTypeReturning(op->type, op->name, v->p); break;
        case C19_E_UNMOD: e = e->withUnmodifiedOutputParameter(op->name); break;
        case C19_E_IGNORE: e = e->ignoreOtherParameters(); break;
        case C19_E_RET:
            switch (v->kind) {
            case C19_BOOL: e = e->andReturnBoolValue((int)v->i); break;
            case C19_INT: e = e->andReturnIntValue((int)v->i); break;
            case C19_UINT: e = e->andReturnUnsignedIntValue((unsigned int)v->u); break;
            case C19_LONG: e = e->andReturnLongIntValue((long)v->i); break;
            case C19_ULONG: e = e->andReturnUnsignedLongIntValue((unsigned long)v->u); break;
            case C19_LL: e = e->andReturnLongLongIntValue(v->i); break;
            case C19_ULL: e = e->andReturnUnsignedLongLongIntValue(v->u); break;
            case C19_DOUBLE: e = e->andReturnDoubleValue(v->d); break;
            case C19_STRING: e = e->andReturnStringValue(v->s); break;
            case C19_PTR: e = e->andReturnPointerValue(v->p); break;
            case C19_CPTR: e = e->andReturnConstPointerValue(v->p); break;
            case C19_FPTR: e = e->andReturnFunctionPointerValue(v->fp); break;
            }
            break;

        case C19_A_PARAM:
            switch (v->kind) {
            case C19_BOOL: a = a->withBoolParameters(op->name, (int)v->i); break;
            case C19_INT: a = a->withIntParameters(op->name, (int)v->i); break;
            case C19_UINT: a = a->withUnsignedIntParameters(op->name, (unsigned int)v->u); break;
            case C19_LONG: a = a->withLongIntParameters(op->name, (long)v->i); break;
            case C19_ULONG: a = a->withUnsignedLongIntParameters(op->name, (unsigned long)v->u); break;
            case C19_LL: a = a->withLongLongIntParameters(op->name, v->i); break;
            case C19_ULL: a = a->withUnsignedLongLongIntParameters(op->name, v->u); break;
            case C19_DOUBLE: a = a->withDoubleParameters(op->name, v->d); break;
            case C19_STRING: a = a->withStringParameters(op->name, v->s); break;
            case C19_PTR: a = a->withPointerParameters(op->name, v->p); break;
            case C19_CPTR: a = a->withConstPointerParameters(op->name, v->p); break;
            case C19_FPTR: a = a->withFunctionPointerParameters(op->name, v->fp); break;
            case C19_MEMBUF: a = a->withMemoryBufferParameter(op->name, (const unsigned char*)v->p, v->size); break;
            case C19_OBJ: a = a->withParameterOfType(op->type, op->name, v->p); break;
            }
            break;
        case C19_A_OUT: a = a->withOutputParameter(op->name, out[op->slot]); break;
        case C19_A_OUT_TYPED: a = a->withOutputParameterOfType(op->type, op->name, out[op->slot]); break;
        case C19_A_HAS: o->i = a->hasReturnValue(); break;
        case C19_A_RETVAL: obs_value(o, a->returnValue()); break;
        case C19_A_GET:
            switch (op->kind) {
            case C19_BOOL: o->i = a->boolReturnValue(); break;
            case C19_INT: o->i = a->intReturnValue(); break;
            case C19_UINT: o->u = a->unsignedIntReturnValue(); break;
            case C19_LONG: o->i = a->longIntReturnValue(); break;
            case C19_ULONG: o->u = a->unsignedLongIntReturnValue(); break;
            case C19_LL: o->i = a->longLongIntReturnValue(); break;
            case C19_ULL: o->u = a->unsignedLongLongIntReturnValue(); break;
            case C19_DOUBLE: obs_double(o, a->doubleReturnValue()); break;
            case C19_STRING: obs_string(o, a->stringReturnValue()); break;
            case C19_PTR: o->p = a->pointerReturnValue(); break;
            case C19_CPTR: o->p = a->constPointerReturnValue(); break;
            case C19_FPTR: o->fp = a->functionPointerReturnValue(); break;
            }
            break;
        case C19_A_GETDEF:
            switch (op->kind) {
            case C19_BOOL: o->i = a->returnBoolValueOrDefault((int)v->i); break;
            case C19_INT: o->i = a->returnIntValueOrDefault((int)v->i); break;
            case C19_UINT: o->u = a->returnUnsignedIntValueOrDefault((unsigned int)v->u); break;
            case C19_LONG: o->i = a->returnLongIntValueOrDefault((long)v->i); break;
            case C19_ULONG: o->u = a->returnUnsignedLongIntValueOrDefault((unsigned long)v->u); break;
            case C19_LL: o->i = a->returnLongLongIntValueOrDefault(v->i); break;
            case C19_ULL: o->u = a->returnUnsignedLongLongIntValueOrDefault(v->u); break;
            case C19_DOUBLE: obs_double(o, a->returnDoubleValueOrDefault(v->d)); break;
            case C19_STRING: obs_string(o, a->returnStringValueOrDefault(v->s)); break;
            case C19_PTR: o->p = a->returnPointerValueOrDefault(v->p); break;
            case C19_CPTR: o->p = a->returnConstPointerValueOrDefault(v->p); break;
            case C19_FPTR: o->fp = a->returnFunctionPointerValueOrDefault(v->fp); break;
            }
            break;
        }
        o->done = 1;
    }
}

void c19_c_reset(int normalise_current_calls)
{
    mock_c()->removeAllComparatorsAndCopiers();
    mock_c()->crashOnFailure(0);
    mock_c()->clear();
    if (!normalise_current_calls) return;
    mock_c()->disable();
    (void)mock_c()->expectOneCall("-");     /* disabled: the library's ignored-expected-call object becomes current */
    (void)mock_c()->actualCall("-");        /* disabled: the library's ignored-actual-call object becomes current */
    mock_c()->enable();
}

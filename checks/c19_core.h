// c19_core.h - check C19: program builder, the C++ back end (interpreter of c19_prog.h programs through the C++ mocking
// API), execution of one program through both back ends inside identical real tests, and the differential comparison.
#pragma once
#include <vector>
#include <string>
#include <map>
#include <cstring>
#include <climits>
#include <cfloat>
#include <cmath>
#include "vf.h"
#include "fixture.h"
#include "c19_prog.h"
#include "CppUTestExt/MockSupport.h"
#include "CppUTestExt/MockSupport_c.h"
#undef new

namespace c19 {

// ---------------------------------------------------------------- values
inline c19_val V(int kind) { c19_val v; memset(&v, 0, sizeof v); v.kind = kind; return v; }
inline c19_val vbool(long long i) { c19_val v = V(C19_BOOL); v.i = i; return v; }
inline c19_val vint(long long i) { c19_val v = V(C19_INT); v.i = i; return v; }
inline c19_val vuint(unsigned long long u) { c19_val v = V(C19_UINT); v.u = u; return v; }
inline c19_val vlong(long long i) { c19_val v = V(C19_LONG); v.i = i; return v; }
inline c19_val vulong(unsigned long long u) { c19_val v = V(C19_ULONG); v.u = u; return v; }
inline c19_val vll(long long i) { c19_val v = V(C19_LL); v.i = i; return v; }
inline c19_val vull(unsigned long long u) { c19_val v = V(C19_ULL); v.u = u; return v; }
inline c19_val vdbl(double d) { c19_val v = V(C19_DOUBLE); v.d = d; return v; }
inline c19_val vdtol(double d, double t) { c19_val v = V(C19_DOUBLE_TOL); v.d = d; v.tol = t; return v; }
inline c19_val vstr(const char* s) { c19_val v = V(C19_STRING); v.s = s; return v; }
inline c19_val vptr(void* p) { c19_val v = V(C19_PTR); v.p = p; return v; }
inline c19_val vcptr(const void* p) { c19_val v = V(C19_CPTR); v.p = const_cast<void*>(p); return v; }
inline c19_val vfptr(c19_fn f) { c19_val v = V(C19_FPTR); v.fp = f; return v; }
inline c19_val vbuf(const unsigned char* b, size_t n) { c19_val v = V(C19_MEMBUF); v.p = const_cast<unsigned char*>(b); v.size = n; return v; }
inline c19_val vobj(const void* p) { c19_val v = V(C19_OBJ); v.p = const_cast<void*>(p); return v; }
inline c19_val vcobj(const void* p) { c19_val v = V(C19_COBJ); v.p = const_cast<void*>(p); return v; }

inline const char* kind_name(int k) {
    static const char* n[] = {"bool", "int", "unsigned", "long", "unsigned long", "long long", "unsigned long long", "double", "string",
                              "pointer", "const pointer", "function pointer", "double+tolerance", "memory buffer", "object", "const object"};
    return k >= 0 && k < C19_NKINDS ? n[k] : "?";
}
// addresses are rendered symbolically by the harness (no raw addresses in details)
std::string sym(const void* p);
std::string symf(c19_fn f);

inline std::string render_val(const c19_val& v) {
    switch (v.kind) {
    case C19_BOOL: case C19_INT: case C19_LONG: case C19_LL: return vf::fmt("%s %lld", kind_name(v.kind), v.i);
    case C19_UINT: case C19_ULONG: case C19_ULL: return vf::fmt("%s %llu", kind_name(v.kind), v.u);
    case C19_DOUBLE: return vf::fmt("double %.17g", v.d);
    case C19_DOUBLE_TOL: return vf::fmt("double %.17g tolerance %.17g", v.d, v.tol);
    case C19_STRING: return v.s ? "string \"" + vf::esc(v.s) + "\"@" + sym(v.s) : std::string("string NULL");
    case C19_PTR: case C19_CPTR: case C19_OBJ: case C19_COBJ: return std::string(kind_name(v.kind)) + " " + sym(v.p);
    case C19_FPTR: return "function pointer " + symf(v.fp);
    case C19_MEMBUF: return "buffer " + sym(v.p) + vf::fmt("[%zu]", v.size);
    }
    return "?";
}

// ---------------------------------------------------------------- programs
struct Program {
    std::vector<c19_op> ops;
    int nbody = -1;                    // ops [0,nbody) are the test body, [nbody,size) the teardown
    c19_nest_cfg nest = {0, 0, 0};     // which callbacks of the re-entrant type R make a nested mocked call
    c19_op& add(int code, const char* scope = nullptr, const char* name = nullptr) {
        c19_op o; memset(&o, 0, sizeof o); o.code = code; o.scope = scope; o.name = name; o.v.kind = -1;
        ops.push_back(o); return ops.back();
    }
    void strict(const char* sc = nullptr) { add(C19_STRICT, sc); }
    void expect_one(const char* fn, const char* sc = nullptr) { add(C19_EXPECT_ONE, sc, fn); }
    void expect_n(unsigned n, const char* fn, const char* sc = nullptr) { add(C19_EXPECT_N, sc, fn).n = n; }
    void expect_none(const char* fn, const char* sc = nullptr) { add(C19_EXPECT_NONE, sc, fn); }
    void actual(const char* fn, const char* sc = nullptr) { add(C19_ACTUAL, sc, fn); }
    void e_param(const char* name, const c19_val& v, const char* type = nullptr) { c19_op& o = add(C19_E_PARAM, nullptr, name); o.v = v; o.type = type; }
    void a_param(const char* name, const c19_val& v, const char* type = nullptr) { c19_op& o = add(C19_A_PARAM, nullptr, name); o.v = v; o.type = type; }
    void e_out(const char* name, const void* src, size_t size) { c19_op& o = add(C19_E_OUT, nullptr, name); o.v = vcptr(src); o.v.size = size; }
    void e_out_typed(const char* type, const char* name, const void* src) { c19_op& o = add(C19_E_OUT_TYPED, nullptr, name); o.type = type; o.v = vcptr(src); }
    void e_unmod(const char* name) { add(C19_E_UNMOD, nullptr, name); }
    void e_ignore() { add(C19_E_IGNORE); }
    void e_ret(const c19_val& v) { add(C19_E_RET).v = v; }
    void a_out(const char* name, int slot) { add(C19_A_OUT, nullptr, name).slot = slot; }
    void a_out_typed(const char* type, const char* name, int slot) { c19_op& o = add(C19_A_OUT_TYPED, nullptr, name); o.type = type; o.slot = slot; }
    void getter(int code, int kind, const char* sc = nullptr) { add(code, sc).kind = kind; }
    void getter_def(int code, const c19_val& def, const char* sc = nullptr) { c19_op& o = add(code, sc); o.kind = def.kind; o.v = def; }
    void set_data(const char* name, const c19_val& v, const char* type = nullptr, const char* sc = nullptr) { c19_op& o = add(C19_SETDATA, sc, name); o.v = v; o.type = type; }
    void get_data(const char* name, const char* sc = nullptr) { add(C19_GETDATA, sc, name); }
    void simple(int code, const char* sc = nullptr) { add(code, sc); }
    void crash_on_fail(unsigned flag, const char* sc = nullptr) { add(C19_CRASHONFAIL, sc).n = flag; }
    void install_cmp(const char* type, unsigned set, const char* sc = nullptr) { c19_op& o = add(C19_INSTALL_CMP, sc); o.type = type; o.n = set; }
    void install_cpy(const char* type, unsigned set, const char* sc = nullptr) { c19_op& o = add(C19_INSTALL_CPY, sc); o.type = type; o.n = set; }
    void end_body() { nbody = (int)ops.size(); }
    // the usual teardown of a test that uses mocks
    void usual_teardown() { end_body(); simple(C19_CHECK); simple(C19_CLEAR); }
};

inline const char* getter_name(int kind, bool ordef) {
    static const char* g[] = {"boolReturnValue", "intReturnValue", "unsignedIntReturnValue", "longIntReturnValue", "unsignedLongIntReturnValue",
                              "longLongIntReturnValue", "unsignedLongLongIntReturnValue", "doubleReturnValue", "stringReturnValue",
                              "pointerReturnValue", "constPointerReturnValue", "functionPointerReturnValue"};
    static const char* d[] = {"returnBoolValueOrDefault", "returnIntValueOrDefault", "returnUnsignedIntValueOrDefault", "returnLongIntValueOrDefault",
                              "returnUnsignedLongIntValueOrDefault", "returnLongLongIntValueOrDefault", "returnUnsignedLongLongIntValueOrDefault",
                              "returnDoubleValueOrDefault", "returnStringValueOrDefault", "returnPointerValueOrDefault",
                              "returnConstPointerValueOrDefault", "returnFunctionPointerValueOrDefault"};
    return kind >= 0 && kind < C19_NGETTERS ? (ordef ? d[kind] : g[kind]) : "?";
}

inline std::string render_op(const c19_op& o) {
    std::string m = o.scope == C19_KEPT ? std::string("H.") : o.scope ? std::string("mock(\"") + o.scope + "\")." : std::string("mock().");
    auto q = [](const char* s) { return s ? "\"" + vf::esc(s) + "\"" : std::string("NULL"); };
    switch (o.code) {
    case C19_STRICT: return m + "strictOrder";
    case C19_EXPECT_ONE: return m + "expectOneCall(" + q(o.name) + ")";
    case C19_EXPECT_N: return m + vf::fmt("expectNCalls(%u,", o.n) + q(o.name) + ")";
    case C19_EXPECT_NONE: return m + "expectNoCall(" + q(o.name) + ")";
    case C19_ACTUAL: return m + "actualCall(" + q(o.name) + ")";
    case C19_S_HAS: return m + "hasReturnValue";
    case C19_S_RETVAL: return m + "returnValue";
    case C19_S_GET: return m + getter_name(o.kind, false);
    case C19_S_GETDEF: return m + getter_name(o.kind, true) + "(" + render_val(o.v) + ")";
    case C19_SETDATA: return m + "setData(" + q(o.name) + "," + (o.type ? q(o.type) + "," : std::string()) + render_val(o.v) + ")";
    case C19_GETDATA: return m + "getData(" + q(o.name) + ")";
    case C19_DISABLE: return m + "disable";
    case C19_ENABLE: return m + "enable";
    case C19_IOC: return m + "ignoreOtherCalls";
    case C19_CHECK: return m + "checkExpectations";
    case C19_LEFT: return m + "expectedCallsLeft";
    case C19_CLEAR: return m + "clear";
    case C19_CRASHONFAIL: return m + vf::fmt("crashOnFailure(%u)", o.n);
    case C19_INSTALL_CMP: return m + "installComparator(" + q(o.type) + (o.n == 2 ? ",re-entrant R-functions)" : o.n ? ",U-functions)" : ",T-functions)");
    case C19_INSTALL_CPY: return m + "installCopier(" + q(o.type) + (o.n == 2 ? ",re-entrant R-copy)" : o.n ? ",U-copy)" : ",T-copy)");
    case C19_REMOVE_ALL: return m + "removeAllComparatorsAndCopiers";
    case C19_SELECT: return "H = " + m.substr(0, m.size() - 1);
    case C19_E_PARAM: return " .withParameter(" + q(o.name) + "," + (o.type ? q(o.type) + "," : std::string()) + render_val(o.v) + ")";
    case C19_E_OUT: return " .withOutputParameterReturning(" + q(o.name) + "," + sym(o.v.p) + vf::fmt(",%zu)", o.v.size);
    case C19_E_OUT_TYPED: return " .withOutputParameterOfTypeReturning(" + q(o.type) + "," + q(o.name) + "," + sym(o.v.p) + ")";
    case C19_E_UNMOD: return " .withUnmodifiedOutputParameter(" + q(o.name) + ")";
    case C19_E_IGNORE: return " .ignoreOtherParameters";
    case C19_E_RET: return " .andReturnValue(" + render_val(o.v) + ")";
    case C19_A_PARAM: return " .withParameter(" + q(o.name) + "," + (o.type ? q(o.type) + "," : std::string()) + render_val(o.v) + ")";
    case C19_A_OUT: return " .withOutputParameter(" + q(o.name) + vf::fmt(",slot%d)", o.slot);
    case C19_A_OUT_TYPED: return " .withOutputParameterOfType(" + q(o.type) + "," + q(o.name) + vf::fmt(",slot%d)", o.slot);
    case C19_A_HAS: return " call.hasReturnValue";
    case C19_A_RETVAL: return " call.returnValue";
    case C19_A_GET: return std::string(" call.") + getter_name(o.kind, false);
    case C19_A_GETDEF: return std::string(" call.") + getter_name(o.kind, true) + "(" + render_val(o.v) + ")";
    }
    return "?";
}
inline std::string render(const Program& p) {
    std::string s;
    if (p.nest.in_equal || p.nest.in_tostring || p.nest.in_copy)
        s = vf::fmt("[R callbacks that call mock(\"n\").actualCall(\"h\").withParameter(\"x\",1).returnIntValueOrDefault(-5):%s%s%s] ", p.nest.in_equal ? " isEqual" : "", p.nest.in_tostring ? " valueToString" : "", p.nest.in_copy ? " copy" : "");
    for (size_t i = 0; i < p.ops.size(); i++) {
        bool first = i == 0;
        if ((int)i == p.nbody) { s += " || teardown: "; first = true; }
        std::string r = render_op(p.ops[i]);
        s += (!first && r[0] != ' ' ? "; " : "") + r;
    }
    return s;
}

// op family used in failure signatures (narrow, input independent)
inline const char* family(const c19_op& o) {
    switch (o.code) {
    case C19_STRICT: return "strictOrder";
    case C19_EXPECT_ONE: return "expectOneCall";
    case C19_EXPECT_N: return "expectNCalls";
    case C19_EXPECT_NONE: return "expectNoCall";
    case C19_ACTUAL: return "actualCall";
    case C19_S_HAS: return "support.hasReturnValue";
    case C19_S_RETVAL: return "support.returnValue";
    case C19_S_GET: return "support.xxxReturnValue";
    case C19_S_GETDEF: return "support.returnXxxValueOrDefault";
    case C19_SETDATA: return "setData";
    case C19_GETDATA: return "getData";
    case C19_DISABLE: return "disable";
    case C19_ENABLE: return "enable";
    case C19_IOC: return "ignoreOtherCalls";
    case C19_CHECK: return "checkExpectations";
    case C19_LEFT: return "expectedCallsLeft";
    case C19_CLEAR: return "clear";
    case C19_CRASHONFAIL: return "crashOnFailure";
    case C19_INSTALL_CMP: return "installComparator";
    case C19_INSTALL_CPY: return "installCopier";
    case C19_REMOVE_ALL: return "removeAllComparatorsAndCopiers";
    case C19_SELECT: return "select";
    case C19_E_PARAM: return "expected.withParameter";
    case C19_E_OUT: case C19_E_OUT_TYPED: case C19_E_UNMOD: return "expected.withOutputParameter";
    case C19_E_IGNORE: return "expected.ignoreOtherParameters";
    case C19_E_RET: return "expected.andReturnValue";
    case C19_A_PARAM: return "actual.withParameter";
    case C19_A_OUT: case C19_A_OUT_TYPED: return "actual.withOutputParameter";
    case C19_A_HAS: return "call.hasReturnValue";
    case C19_A_RETVAL: return "call.returnValue";
    case C19_A_GET: return "call.xxxReturnValue";
    case C19_A_GETDEF: return "call.returnXxxValueOrDefault";
    }
    return "?";
}

// ---------------------------------------------------------------- C++ comparator / copier objects over the same C functions
struct CmpObj : MockNamedValueComparator {
    MockTypeEqualFunction_c eq; MockTypeValueToStringFunction_c str;
    CmpObj(MockTypeEqualFunction_c e, MockTypeValueToStringFunction_c s) : eq(e), str(s) {}
    bool isEqual(const void* a, const void* b) override { return eq(a, b) != 0; }
    SimpleString valueToString(const void* a) override { return SimpleString(str(a)); }
};
struct CpyObj : MockNamedValueCopier {
    MockTypeCopyFunction_c cp;
    explicit CpyObj(MockTypeCopyFunction_c c) : cp(c) {}
    void copy(void* dst, const void* src) override { cp(dst, src); }
};
// re-entrant type R, C++ spelling: the callbacks make their nested call through the C++ interface
inline void nested_call_cpp(int) { c19_nest_log(mock("n").actualCall("h").withParameter("x", 1).returnIntValueOrDefault(-5)); }
struct ReCmpObj : MockNamedValueComparator {
    bool isEqual(const void* a, const void* b) override {
        if (c19_nest.in_equal) nested_call_cpp(((const c19_T*)a)->key);
        return ((const c19_T*)a)->key == ((const c19_T*)b)->key;
    }
    SimpleString valueToString(const void* a) override {
        if (c19_nest.in_tostring) nested_call_cpp(((const c19_T*)a)->key);
        return StringFromFormat("R(key=%d)", ((const c19_T*)a)->key);
    }
};
struct ReCpyObj : MockNamedValueCopier {
    void copy(void* dst, const void* src) override {
        if (c19_nest.in_copy) nested_call_cpp(((const c19_T*)src)->key);
        *(c19_T*)dst = *(const c19_T*)src;
    }
};
inline CmpObj g_cmpT(c19_T_equal, c19_T_tostring), g_cmpU(c19_U_equal, c19_U_tostring);
inline CpyObj g_cpyT(c19_T_copy), g_cpyU(c19_U_copy);
inline ReCmpObj g_cmpR; inline ReCpyObj g_cpyR;
inline MockNamedValueComparator* g_cmp[3] = {&g_cmpT, &g_cmpU, &g_cmpR};
inline MockNamedValueCopier* g_cpy[3] = {&g_cpyT, &g_cpyU, &g_cpyR};

// ---------------------------------------------------------------- the C++ back end
inline int tag_of_type(const SimpleString& t) {      // the C type tag that belongs to a C++ value type
    struct { const char* n; int tag; } m[] = {
        {"bool", MOCKVALUETYPE_BOOL}, {"int", MOCKVALUETYPE_INTEGER}, {"unsigned int", MOCKVALUETYPE_UNSIGNED_INTEGER},
        {"long int", MOCKVALUETYPE_LONG_INTEGER}, {"unsigned long int", MOCKVALUETYPE_UNSIGNED_LONG_INTEGER},
        {"long long int", MOCKVALUETYPE_LONG_LONG_INTEGER}, {"unsigned long long int", MOCKVALUETYPE_UNSIGNED_LONG_LONG_INTEGER},
        {"double", MOCKVALUETYPE_DOUBLE}, {"const char*", MOCKVALUETYPE_STRING}, {"void*", MOCKVALUETYPE_POINTER},
        {"const void*", MOCKVALUETYPE_CONST_POINTER}, {"void (*)()", MOCKVALUETYPE_FUNCTIONPOINTER},
        {"const unsigned char*", MOCKVALUETYPE_MEMORYBUFFER}};
    for (auto& e : m) if (t == e.n) return e.tag;
    return MOCKVALUETYPE_OBJECT;
}
inline void obs_double(c19_obs* o, double d) { memcpy(&o->dbits, &d, sizeof d); }
inline void obs_string(c19_obs* o, const char* s) {
    o->p = s; o->has_s = s != nullptr;
    if (s) { strncpy(o->s, s, sizeof o->s - 1); o->s[sizeof o->s - 1] = 0; }
}
inline void obs_value(c19_obs* o, const MockNamedValue& v) {
    o->tag = tag_of_type(v.getType());
    switch (o->tag) {
    case MOCKVALUETYPE_BOOL: o->i = v.getBoolValue() ? 1 : 0; break;
    case MOCKVALUETYPE_INTEGER: o->i = v.getIntValue(); break;
    case MOCKVALUETYPE_UNSIGNED_INTEGER: o->u = v.getUnsignedIntValue(); break;
    case MOCKVALUETYPE_LONG_INTEGER: o->i = v.getLongIntValue(); break;
    case MOCKVALUETYPE_UNSIGNED_LONG_INTEGER: o->u = v.getUnsignedLongIntValue(); break;
    case MOCKVALUETYPE_LONG_LONG_INTEGER: o->i = v.getLongLongIntValue(); break;
    case MOCKVALUETYPE_UNSIGNED_LONG_LONG_INTEGER: o->u = v.getUnsignedLongLongIntValue(); break;
    case MOCKVALUETYPE_DOUBLE: obs_double(o, v.getDoubleValue()); break;
    case MOCKVALUETYPE_STRING: obs_string(o, v.getStringValue()); break;
    case MOCKVALUETYPE_POINTER: o->p = v.getPointerValue(); break;
    case MOCKVALUETYPE_CONST_POINTER: o->p = v.getConstPointerValue(); break;
    case MOCKVALUETYPE_FUNCTIONPOINTER: o->fp = (c19_fn)v.getFunctionPointerValue(); break;
    case MOCKVALUETYPE_MEMORYBUFFER: o->p = v.getMemoryBuffer(); break;
    case MOCKVALUETYPE_OBJECT: o->p = v.getObjectPointer(); break;
    }
}

typedef void (*cppfn)();
inline MockSupport* g_kept_support;
inline MockSupport& support(const c19_op& op) {
    if (op.scope == C19_KEPT) return *g_kept_support;
    return op.scope ? mock(op.scope) : mock();
}

inline void run_cpp(const c19_op* ops, int from, int to, c19_obs* obs, unsigned char (*out)[C19_SLOTSIZE]) {
    static MockExpectedCall* e; static MockActualCall* a;
    for (int k = from; k < to; k++) {
        const c19_op& op = ops[k]; const c19_val& v = op.v; c19_obs* o = &obs[k];
        switch (op.code) {
        case C19_STRICT: support(op).strictOrder(); break;
        case C19_EXPECT_ONE: e = &support(op).expectOneCall(op.name); break;
        case C19_EXPECT_N: e = &support(op).expectNCalls(op.n, op.name); break;
        case C19_EXPECT_NONE: support(op).expectNoCall(op.name); break;
        case C19_ACTUAL: a = &support(op).actualCall(op.name); break;
        case C19_S_HAS: o->i = support(op).hasReturnValue() ? 1 : 0; break;
        case C19_S_RETVAL: obs_value(o, support(op).returnValue()); break;
        case C19_S_GET:
            switch (op.kind) {
            case C19_BOOL: o->i = support(op).boolReturnValue() ? 1 : 0; break;
            case C19_INT: o->i = support(op).intReturnValue(); break;
            case C19_UINT: o->u = support(op).unsignedIntReturnValue(); break;
            case C19_LONG: o->i = support(op).longIntReturnValue(); break;
            case C19_ULONG: o->u = support(op).unsignedLongIntReturnValue(); break;
            case C19_LL: o->i = support(op).longLongIntReturnValue(); break;
            case C19_ULL: o->u = support(op).unsignedLongLongIntReturnValue(); break;
            case C19_DOUBLE: obs_double(o, support(op).doubleReturnValue()); break;
            case C19_STRING: obs_string(o, support(op).stringReturnValue()); break;
            case C19_PTR: o->p = support(op).pointerReturnValue(); break;
            case C19_CPTR: o->p = support(op).constPointerReturnValue(); break;
            case C19_FPTR: o->fp = (c19_fn)support(op).functionPointerReturnValue(); break;
            }
            break;
        case C19_S_GETDEF:
            switch (op.kind) {
            case C19_BOOL: o->i = support(op).returnBoolValueOrDefault(v.i != 0) ? 1 : 0; break;
            case C19_INT: o->i = support(op).returnIntValueOrDefault((int)v.i); break;
            case C19_UINT: o->u = support(op).returnUnsignedIntValueOrDefault((unsigned)v.u); break;
            case C19_LONG: o->i = support(op).returnLongIntValueOrDefault((long)v.i); break;
            case C19_ULONG: o->u = support(op).returnUnsignedLongIntValueOrDefault((unsigned long)v.u); break;
            case C19_LL: o->i = support(op).returnLongLongIntValueOrDefault(v.i); break;
            case C19_ULL: o->u = support(op).returnUnsignedLongLongIntValueOrDefault(v.u); break;
            case C19_DOUBLE: obs_double(o, support(op).returnDoubleValueOrDefault(v.d)); break;
            case C19_STRING: obs_string(o, support(op).returnStringValueOrDefault(v.s)); break;
            case C19_PTR: o->p = support(op).returnPointerValueOrDefault(v.p); break;
            case C19_CPTR: o->p = support(op).returnConstPointerValueOrDefault(v.p); break;
            case C19_FPTR: o->fp = (c19_fn)support(op).returnFunctionPointerValueOrDefault((cppfn)v.fp); break;
            }
            break;
        case C19_SETDATA:
            switch (v.kind) {
            case C19_BOOL: support(op).setData(op.name, v.i != 0); break;
            case C19_INT: support(op).setData(op.name, (int)v.i); break;
            case C19_UINT: support(op).setData(op.name, (unsigned)v.u); break;
            case C19_DOUBLE: support(op).setData(op.name, v.d); break;
            case C19_STRING: support(op).setData(op.name, v.s); break;
            case C19_PTR: support(op).setData(op.name, v.p); break;
            case C19_CPTR: support(op).setData(op.name, (const void*)v.p); break;
            case C19_FPTR: support(op).setData(op.name, (cppfn)v.fp); break;
            case C19_OBJ: support(op).setDataObject(op.name, op.type, v.p); break;
            case C19_COBJ: support(op).setDataConstObject(op.name, op.type, v.p); break;
            }
            break;
        case C19_GETDATA: obs_value(o, support(op).getData(op.name)); break;
        case C19_DISABLE: support(op).disable(); break;
        case C19_ENABLE: support(op).enable(); break;
        case C19_IOC: support(op).ignoreOtherCalls(); break;
        case C19_CHECK: support(op).checkExpectations(); break;
        case C19_LEFT: o->i = support(op).expectedCallsLeft() ? 1 : 0; break;
        case C19_CLEAR: support(op).clear(); break;
        case C19_CRASHONFAIL: support(op).crashOnFailure(op.n != 0); break;
        case C19_INSTALL_CMP: support(op).installComparator(op.type, *g_cmp[op.n > 2 ? 0 : op.n]); break;
        case C19_INSTALL_CPY: support(op).installCopier(op.type, *g_cpy[op.n > 2 ? 0 : op.n]); break;
        case C19_REMOVE_ALL: support(op).removeAllComparatorsAndCopiers(); break;
        case C19_SELECT: g_kept_support = op.scope ? &mock(op.scope) : &mock(); break;

        case C19_E_PARAM:
            switch (v.kind) {
            case C19_BOOL: e = &e->withParameter(op.name, v.i != 0); break;
            case C19_INT: e = &e->withParameter(op.name, (int)v.i); break;
            case C19_UINT: e = &e->withParameter(op.name, (unsigned)v.u); break;
            case C19_LONG: e = &e->withParameter(op.name, (long)v.i); break;
            case C19_ULONG: e = &e->withParameter(op.name, (unsigned long)v.u); break;
            case C19_LL: e = &e->withParameter(op.name, (long long)v.i); break;
            case C19_ULL: e = &e->withParameter(op.name, (unsigned long long)v.u); break;
            case C19_DOUBLE: e = &e->withParameter(op.name, v.d); break;
            case C19_DOUBLE_TOL: e = &e->withParameter(op.name, v.d, v.tol); break;
            case C19_STRING: e = &e->withParameter(op.name, v.s); break;
            case C19_PTR: e = &e->withParameter(op.name, v.p); break;
            case C19_CPTR: e = &e->withParameter(op.name, (const void*)v.p); break;
            case C19_FPTR: e = &e->withParameter(op.name, (cppfn)v.fp); break;
            case C19_MEMBUF: e = &e->withParameter(op.name, (const unsigned char*)v.p, v.size); break;
            case C19_OBJ: e = &e->withParameterOfType(op.type, op.name, v.p); break;
            }
            break;
        case C19_E_OUT: e = &e->withOutputParameterReturning(op.name, v.p, v.size); break;
        case C19_E_OUT_TYPED: e = &e->withOutputParameterOfTypeReturning(op.type, op.name, v.p); break;
        case C19_E_UNMOD: e = &e->withUnmodifiedOutputParameter(op.name); break;
        case C19_E_IGNORE: e = &e->ignoreOtherParameters(); break;
        case C19_E_RET:
            switch (v.kind) {
            case C19_BOOL: e = &e->andReturnValue(v.i != 0); break;
            case C19_INT: e = &e->andReturnValue((int)v.i); break;
            case C19_UINT: e = &e->andReturnValue((unsigned)v.u); break;
            case C19_LONG: e = &e->andReturnValue((long)v.i); break;
            case C19_ULONG: e = &e->andReturnValue((unsigned long)v.u); break;
            case C19_LL: e = &e->andReturnValue((long long)v.i); break;
            case C19_ULL: e = &e->andReturnValue((unsigned long long)v.u); break;
            case C19_DOUBLE: e = &e->andReturnValue(v.d); break;
            case C19_STRING: e = &e->andReturnValue(v.s); break;
            case C19_PTR: e = &e->andReturnValue(v.p); break;
            case C19_CPTR: e = &e->andReturnValue((const void*)v.p); break;
            case C19_FPTR: e = &e->andReturnValue((cppfn)v.fp); break;
            }
            break;

        case C19_A_PARAM:
            switch (v.kind) {
            case C19_BOOL: a = &a->withParameter(op.name, v.i != 0); break;
            case C19_INT: a = &a->withParameter(op.name, (int)v.i); break;
            case C19_UINT: a = &a->withParameter(op.name, (unsigned)v.u); break;
            case C19_LONG: a = &a->withParameter(op.name, (long)v.i); break;
            case C19_ULONG: a = &a->withParameter(op.name, (unsigned long)v.u); break;
            case C19_LL: a = &a->withParameter(op.name, (long long)v.i); break;
            case C19_ULL: a = &a->withParameter(op.name, (unsigned long long)v.u); break;
            case C19_DOUBLE: a = &a->withParameter(op.name, v.d); break;
            case C19_STRING: a = &a->withParameter(op.name, v.s); break;
            case C19_PTR: a = &a->withParameter(op.name, v.p); break;
            case C19_CPTR: a = &a->withParameter(op.name, (const void*)v.p); break;
            case C19_FPTR: a = &a->withParameter(op.name, (cppfn)v.fp); break;
            case C19_MEMBUF: a = &a->withParameter(op.name, (const unsigned char*)v.p, v.size); break;
            case C19_OBJ: a = &a->withParameterOfType(op.type, op.name, v.p); break;
            }
            break;
        case C19_A_OUT: a = &a->withOutputParameter(op.name, out[op.slot]); break;
        case C19_A_OUT_TYPED: a = &a->withOutputParameterOfType(op.type, op.name, out[op.slot]); break;
        case C19_A_HAS: o->i = a->hasReturnValue() ? 1 : 0; break;
        case C19_A_RETVAL: obs_value(o, a->returnValue()); break;
        case C19_A_GET:
            switch (op.kind) {
            case C19_BOOL: o->i = a->returnBoolValue() ? 1 : 0; break;
            case C19_INT: o->i = a->returnIntValue(); break;
            case C19_UINT: o->u = a->returnUnsignedIntValue(); break;
            case C19_LONG: o->i = a->returnLongIntValue(); break;
            case C19_ULONG: o->u = a->returnUnsignedLongIntValue(); break;
            case C19_LL: o->i = a->returnLongLongIntValue(); break;
            case C19_ULL: o->u = a->returnUnsignedLongLongIntValue(); break;
            case C19_DOUBLE: obs_double(o, a->returnDoubleValue()); break;
            case C19_STRING: obs_string(o, a->returnStringValue()); break;
            case C19_PTR: o->p = a->returnPointerValue(); break;
            case C19_CPTR: o->p = a->returnConstPointerValue(); break;
            case C19_FPTR: o->fp = (c19_fn)a->returnFunctionPointerValue(); break;
            }
            break;
        case C19_A_GETDEF:
            switch (op.kind) {
            case C19_BOOL: o->i = a->returnBoolValueOrDefault(v.i != 0) ? 1 : 0; break;
            case C19_INT: o->i = a->returnIntValueOrDefault((int)v.i); break;
            case C19_UINT: o->u = a->returnUnsignedIntValueOrDefault((unsigned)v.u); break;
            case C19_LONG: o->i = a->returnLongIntValueOrDefault((long)v.i); break;
            case C19_ULONG: o->u = a->returnUnsignedLongIntValueOrDefault((unsigned long)v.u); break;
            case C19_LL: o->i = a->returnLongLongIntValueOrDefault(v.i); break;
            case C19_ULL: o->u = a->returnUnsignedLongLongIntValueOrDefault(v.u); break;
            case C19_DOUBLE: obs_double(o, a->returnDoubleValueOrDefault(v.d)); break;
            case C19_STRING: obs_string(o, a->returnStringValueOrDefault(v.s)); break;
            case C19_PTR: o->p = a->returnPointerValueOrDefault(v.p); break;
            case C19_CPTR: o->p = a->returnConstPointerValueOrDefault(v.p); break;
            case C19_FPTR: o->fp = (c19_fn)a->returnFunctionPointerValueOrDefault((cppfn)v.fp); break;
            }
            break;
        }
        o->done = 1;
    }
}

// ---------------------------------------------------------------- one execution
struct Result {                       // POD: can live in shared memory
    c19_obs obs[C19_MAXOPS];
    unsigned char out[C19_NSLOTS][C19_SLOTSIZE];
    int failures, checks, crash_calls, teardown_entered, finished, nest_calls;
    long long nest_sum;
    char text[3000];
};

inline int g_crash_calls;
inline void crash_recorder() { g_crash_calls++; }

// state every case starts from (both back ends share the library's global mock support)
inline bool g_keep_c_statics = false;   // 'stale' section: the static current-call pointers of the C layer are part of the scenario
inline void reset_library() {
    mock().clear();
    mock().removeAllComparatorsAndCopiers();
    mock().crashOnFailure(false);
    c19_c_reset(g_keep_c_statics ? 0 : 1);
    mock();                            // active reporter back to the C++ one
}

inline void execute(const Program& p, bool c_backend, Result& r) {
    if ((int)p.ops.size() > C19_MAXOPS || p.nbody < 0) vf::harness_error("program too long or without teardown mark");
    memset(&r, 0, sizeof r);
    for (auto& o : r.obs) o.tag = C19_TAG_NONE;
    for (int s = 0; s < C19_NSLOTS; s++) for (int b = 0; b < C19_SLOTSIZE; b++) r.out[s][b] = (unsigned char)(0xA0 + s);
    reset_library();
    g_crash_calls = 0;
    c19_nest = p.nest; c19_nest_calls = 0; c19_nest_sum = 0;
    UtestShell::setCrashMethod(crash_recorder);
    const c19_op* ops = p.ops.data(); int nb = p.nbody, n = (int)p.ops.size();
    {
        vf::Fixture fx;
        Result* rp = &r;
        if (c_backend) fx.run([=]() { c19_run_c(ops, 0, nb, rp->obs, rp->out); }, nullptr, [=]() { rp->teardown_entered = 1; c19_run_c(ops, nb, n, rp->obs, rp->out); });
        else fx.run([=]() { run_cpp(ops, 0, nb, rp->obs, rp->out); }, nullptr, [=]() { rp->teardown_entered = 1; run_cpp(ops, nb, n, rp->obs, rp->out); });
        r.failures = (int)fx.failures(); r.checks = (int)fx.checks();
        std::string t = fx.output();
        // the summary line carries the run time: keep everything in front of it
        size_t cut = t.rfind("\nErrors ("); if (cut == std::string::npos) cut = t.rfind("\nOK (");
        if (cut != std::string::npos) t.resize(cut);
        strncpy(r.text, t.c_str(), sizeof r.text - 1);
    }
    UtestShell::resetCrashMethod();
    r.crash_calls = g_crash_calls;
    r.nest_calls = c19_nest_calls; r.nest_sum = c19_nest_sum;
    c19_nest = c19_nest_cfg{0, 0, 0};
    reset_library();
    r.finished = 1;
}

// ---------------------------------------------------------------- comparison
inline std::string render_obs(const c19_op& op, const c19_obs& o) {
    if (!o.done) return "<not completed>";
    std::string s = "done";
    int tag = o.tag;
    int kind = -1;
    if (op.code == C19_S_GET || op.code == C19_S_GETDEF || op.code == C19_A_GET || op.code == C19_A_GETDEF) kind = op.kind;
    if (tag != C19_TAG_NONE) s += vf::fmt(" tag=%d", tag);
    if (tag != C19_TAG_NONE || kind >= 0 || op.code == C19_S_HAS || op.code == C19_A_HAS || op.code == C19_LEFT) {
        double d; memcpy(&d, &o.dbits, sizeof d);
        s += vf::fmt(" i=%lld u=%llu d=%.17g p=%s fp=%s", o.i, o.u, d, sym(o.p).c_str(), symf(o.fp).c_str());
        if (o.has_s) s += " s=\"" + vf::esc(o.s) + "\"";
    }
    return s;
}

struct Diff { bool any = false; std::string sig, detail; };

inline Diff compare(const Program& p, const Result& cpp, const Result& c) {
    Diff d;
    int n = (int)p.ops.size();
    auto set = [&](const std::string& sig, const std::string& detail) { if (!d.any) { d.any = true; d.sig = sig; d.detail = detail; } };
    for (int k = 0; k < n && !d.any; k++) {
        const c19_obs& x = cpp.obs[k]; const c19_obs& y = c.obs[k];
        const char* what = nullptr;
        if (x.done != y.done) what = x.done ? "aborted-only-in-C" : "aborted-only-in-C++";
        else if (x.tag != y.tag) what = "type-tag-differs";
        else if (x.i != y.i || x.u != y.u || x.dbits != y.dbits || x.p != y.p || x.fp != y.fp || x.has_s != y.has_s || strcmp(x.s, y.s) != 0) what = "value-differs";
        if (what) set(std::string(family(p.ops[k])) + "/" + what,
                      vf::fmt("op %d '", k) + render_op(p.ops[k]) + "': C++ " + render_obs(p.ops[k], x) + " | C " + render_obs(p.ops[k], y));
    }
    // locus for verdict/text differences: the first operation that did not complete
    auto locus = [&]() -> std::string {
        for (int k = 0; k < n; k++) if (!cpp.obs[k].done || !c.obs[k].done) return family(p.ops[k]);
        return "whole-test";
    };
    if (!d.any && cpp.failures != c.failures) set(locus() + "/failure-count-differs", vf::fmt("C++ %d failures, C %d failures", cpp.failures, c.failures));
    if (!d.any && strcmp(cpp.text, c.text) != 0) set(locus() + "/failure-text-differs", "");
    if (!d.any && memcmp(cpp.out, c.out, sizeof cpp.out) != 0) {
        std::string a, b; for (int s = 0; s < C19_NSLOTS; s++) { a += vf::esc(std::string((const char*)cpp.out[s], C19_SLOTSIZE)) + "|"; b += vf::esc(std::string((const char*)c.out[s], C19_SLOTSIZE)) + "|"; }
        set("actual.withOutputParameter/output-bytes-differ", "C++ " + a + " C " + b);
    }
    if (cpp.checks != c.checks) vf::count("check_count_differs_not_asserted");     // the property does not speak about the check counter
    if (!d.any && (cpp.nest_calls != c.nest_calls || cpp.nest_sum != c.nest_sum))
        set("callback/nested-calls-differ", vf::fmt("nested calls made by the callbacks: C++ %d (checksum %lld), C %d (checksum %lld)", cpp.nest_calls, cpp.nest_sum, c.nest_calls, c.nest_sum));
    if (!d.any && cpp.crash_calls != c.crash_calls) set("crashOnFailure/crash-method-calls-differ", vf::fmt("C++ %d, C %d", cpp.crash_calls, c.crash_calls));
    if (!d.any && cpp.teardown_entered != c.teardown_entered) set("whole-test/teardown-differs", "");
    if (d.any) {
        d.detail = render(p) + " :: " + d.detail;
        if (cpp.failures || c.failures) d.detail += " :: C++ text: " + std::string(cpp.text).substr(0, 500) + " :: C text: " + std::string(c.text).substr(0, 500);
    }
    return d;
}

// non-trivial: the scenario fails in the C++ back end, or hands out a non-zero value / changes an output slot
inline bool nontrivial(const Program& p, const Result& r) {
    if (r.failures) return true;
    for (size_t k = 0; k < p.ops.size(); k++) { const c19_obs& o = r.obs[k]; if (o.i || o.u || o.dbits || o.p || o.fp) return true; }
    for (int s = 0; s < C19_NSLOTS; s++) for (int b = 0; b < C19_SLOTSIZE; b++) if (r.out[s][b] != (unsigned char)(0xA0 + s)) return true;
    return false;
}

// first line of the mock failure message (the diagnosis class) - for outcome diversity only
inline std::string failure_head(const Result& r) {
    if (!r.failures) return "pass";
    std::string t = r.text;
    size_t p = t.find("Mock Failure: ");
    if (p != std::string::npos) { size_t e = t.find_first_of(":\n\"<", p + 14); std::string h = t.substr(p + 14, e == std::string::npos ? 30 : e - p - 14); if (h.size() > 40) h.resize(40); return "mock:" + h; }
    p = t.find("expected <");
    if (p != std::string::npos) return "getter-type-check";
    return "other-failure";
}

// one line per failing case; after 40 witnesses of one signature in a worker the (long) witness text is dropped
inline void report(const std::string& sig, const std::string& detail) {
    static std::map<std::string, int> seen;
    int n = ++seen[sig];
    vf::fail(sig, n <= 40 ? detail.substr(0, 1400) : std::string("(witness text omitted after 40 cases with this signature in this worker)"));
}

// runs the program through both back ends in this process and reports a difference
inline void differential(const Program& p, const std::string& outcome_prefix) {
    static Result cpp, c;
    vf::ctx("c++-backend");
    execute(p, false, cpp);
    vf::ctx("c-backend");
    execute(p, true, c);
    vf::ctx("compare");
    vf::count("executed");
    vf::count("ops", (long)p.ops.size() * 2);
    if (nontrivial(p, cpp)) vf::count("nontrivial");
    if (cpp.failures) vf::count("failing_scenarios");
    Diff d = compare(p, cpp, c);
    if (d.any) report(d.sig, d.detail);
    vf::outcome(outcome_prefix + "/" + failure_head(cpp));
    if (vf::want_sample()) vf::sample(render(p) + " => " + failure_head(cpp) + (vf::g_replaying ? vf::fmt(" :: failures C++ %d C %d, checks %d/%d :: C++ text: ", cpp.failures, c.failures, cpp.checks, c.checks) + cpp.text + " :: C text: " + c.text : std::string()));
}

} // namespace c19

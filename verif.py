#!/usr/bin/env python3
"""Driver: build the library under test from the repository's working tree, run a check harness,
classify what it found (known finding / new violation / harness error), write evidence.

  verif.py run C18 [--tier quick|thorough] [--repo DIR] [--deadline S]
  verif.py replay replays/C18-1.json
  verif.py list

exit 0: nothing outside known_findings.txt failed      exit 1: VIOLATION line(s) printed
exit 2: harness/build/internal error (never disguised as 0 or 1)
"""
import sys, os, json, subprocess, time, hashlib, argparse, re, fcntl

ROOT = os.path.dirname(os.path.abspath(__file__))
sys.path.insert(0, ROOT)
from checks.registry import CHECKS   # noqa: E402


def sh(cmd, **kw):
    return subprocess.run(cmd, shell=isinstance(cmd, str), cwd=ROOT, **kw)


def repo_and_tag(repo_arg):
    repo = repo_arg or os.environ.get("VERIF_REPO") or "/repo"
    repo = os.path.abspath(repo)
    tag = "repo" if repo == "/repo" else "alt-" + hashlib.md5(repo.encode()).hexdigest()[:8]
    return repo, tag


def build(repo, tag, flavour, check_bin):
    os.makedirs(os.path.join(ROOT, "build", "tmp"), exist_ok=True)
    lock = open(os.path.join(ROOT, "build", ".lock-%s-%s" % (tag, flavour)), "w")
    fcntl.flock(lock, fcntl.LOCK_EX)
    try:
        base = "make -s -j16 REPO=%s TAG=%s FLAVOUR=%s" % (repo, tag, flavour)
        for target in ("lib", "CHECK=%s bin" % check_bin):
            r = sh(base + " " + target, stdout=subprocess.PIPE, stderr=subprocess.STDOUT, text=True)
            if r.returncode != 0:
                print(r.stdout[-6000:])
                print("BUILD-ERROR: %s (flavour %s)" % (target, flavour))
                return None
    finally:
        fcntl.flock(lock, fcntl.LOCK_UN)
        lock.close()
    return os.path.join(ROOT, "build", tag, flavour, "bin", check_bin)


def load_known(pid):
    known, fixed = {}, []
    path = os.path.join(ROOT, "known_findings.txt")
    if os.path.exists(path):
        for line in open(path):
            line = line.strip()
            if not line or line.startswith("#"):
                continue
            m = re.match(r"known:\s+property=(\S+)\s+sig=(\S+)\s*(.*)", line)
            if m and m.group(1) == pid:
                known[m.group(2)] = m.group(3)
            m = re.match(r"fixed:\s+property=(\S+)\s+(.*)", line)
            if m and m.group(1) == pid:
                fixed.append(m.group(2))
    return known, fixed


def parse_out(path):
    res = {"stat": {}, "outcomes": {}, "samples": {}, "fails": [], "info": {}, "incomplete": [], "require": {},
           "sections": [], "errors": [], "ended": False}
    if not os.path.exists(path):
        return res
    for line in open(path, errors="replace"):
        f = line.rstrip("\n").split("\t")
        k = f[0]
        if k == "STAT" and len(f) >= 3:
            res["stat"][f[1]] = res["stat"].get(f[1], 0) + int(f[2])
        elif k == "OUTCOME" and len(f) >= 3:
            res["outcomes"].setdefault(f[1], set()).add(f[2])
        elif k == "SAMPLE" and len(f) >= 3:
            res["samples"].setdefault(f[1], []).append(f[2])
        elif k == "FAIL" and len(f) >= 3:
            res["fails"].append((f[1], f[2], f[3] if len(f) > 3 else ""))
        elif k == "INFO" and len(f) >= 3:
            res["info"][f[1]] = f[2]
        elif k == "INCOMPLETE" and len(f) >= 2:
            res["incomplete"].append(f[1] + (": " + f[2] if len(f) > 2 else ""))
        elif k == "REQUIRE" and len(f) >= 3:
            res["require"][f[1]] = int(f[2])
        elif k == "SECTION" and len(f) >= 4:
            res["sections"].append((f[1], float(f[3])))
        elif k == "HARNESSERROR":
            res["errors"].append("\t".join(f[1:]))
        elif k == "END":
            res["ended"] = True
    return res


def replay_case(binary, case, hang=None, tier=None):
    cmd = [binary, "--replay", case]
    if tier:
        cmd += ["--tier", tier]
    if hang:
        cmd += ["--hang", str(hang)]
    r = subprocess.run(cmd, cwd=ROOT, stdout=subprocess.PIPE, stderr=subprocess.PIPE, text=True, errors="replace")
    sigs, lines = [], []
    for line in r.stdout.splitlines():
        f = line.split("\t")
        if f[0] == "FAIL" and len(f) >= 3:
            sigs.append(f[2])
        lines.append(line)
    return r.returncode, sigs, lines, r.stderr


def cmd_run(args):
    pid = args.id.upper()
    if pid not in CHECKS:
        print("unknown check", pid)
        return 2
    cfg = CHECKS[pid]
    tier = args.tier or os.environ.get("VERIF_TIER") or "quick"
    seed = int(os.environ.get("VERIF_SEED", "0") or 0)
    repo, tag = repo_and_tag(args.repo)
    t0 = time.time()
    deadline = args.deadline or cfg.get("deadline", {}).get(tier, 120 if tier == "quick" else 1500)
    known, fixed = load_known(pid)
    os.makedirs(os.path.join(ROOT, "build", "out"), exist_ok=True)
    os.makedirs(os.path.join(ROOT, "replays"), exist_ok=True)
    os.makedirs(os.path.join(ROOT, "evidence"), exist_ok=True)

    flavours = cfg["flavours"][tier] if isinstance(cfg["flavours"], dict) else cfg["flavours"]
    agg = {"stat": {}, "outcomes": {}, "samples": {}, "fails": [], "info": {}, "incomplete": [], "sections": []}
    harness_errors = []
    bins = {}
    per_flavour_deadline = deadline / max(1, len(flavours))
    for fl_entry in flavours:
        # "flavour" or "flavour:bin" (a supplementary harness with its own binary)
        fl, _, alt_bin = fl_entry.partition(":")
        this_bin = alt_bin or cfg["bin"]
        bins[fl_entry] = (fl, this_bin)
        binary = build(repo, tag, fl, this_bin)
        if binary is None:
            print("HARNESS-ERROR: build failed")
            return 2
        out = os.path.join(ROOT, "build", "out", "%s-%s-%s.txt" % (pid, tag, fl_entry.replace(":", "-")))
        if os.path.exists(out):
            os.remove(out)
        fl_deadline = cfg.get("deadline_by_flavour", {}).get(tier, {}).get(fl_entry, per_flavour_deadline) if not args.deadline else per_flavour_deadline
        cmd = [binary, "--tier", tier, "--out", out, "--deadline", str(fl_deadline), "--seed", str(seed)]
        if args.only:
            cmd += ["--only", args.only]
        r = subprocess.run(cmd, cwd=ROOT, stdout=subprocess.PIPE, stderr=subprocess.PIPE, text=True, errors="replace")
        res = parse_out(out)
        lab = fl if not alt_bin else fl + "-" + alt_bin
        if r.returncode != 0 or not res["ended"]:
            harness_errors.append("harness %s (%s) exit %d: %s" % (this_bin, fl, r.returncode, (r.stderr or "")[-1500:]))
        harness_errors += ["%s: %s" % (lab, e) for e in res["errors"]]
        for k, v in res["stat"].items():
            agg["stat"][lab + ":" + k] = v
        for s, o in res["outcomes"].items():
            agg["outcomes"].setdefault(lab + ":" + s, set()).update(o)
        for s, o in res["samples"].items():
            agg["samples"].setdefault(lab + ":" + s, []).extend(o[:3])
        for (case, sig, detail) in res["fails"]:
            agg["fails"].append((fl_entry, case, sig, detail))
        agg["info"].update({lab + ":" + k: v for k, v in res["info"].items()})
        for x in res["incomplete"]:
            if lab + ":" + x not in agg["incomplete"]:
                agg["incomplete"].append(lab + ":" + x)
        agg["sections"] += [(lab + ":" + n, w) for (n, w) in res["sections"]]
        if not args.only:
            for s, n in res["require"].items():
                got = len(res["outcomes"].get(s, ()))
                if got < n and not any(x.startswith(s) for x in res["incomplete"]):
                    harness_errors.append("vacuity: section %s:%s produced %d distinct outcomes, needs >= %d" % (lab, s, got, n))

    # ---- classify failures by signature
    by_sig = {}
    for (fl, case, sig, detail) in agg["fails"]:
        e = by_sig.setdefault(sig, {"count": 0, "witness": []})
        e["count"] += 1
        if len(e["witness"]) < 3:
            e["witness"].append((fl, case, detail))
    violations, known_hit = [], []
    nrep = 0
    for sig in sorted(by_sig):
        e = by_sig[sig]
        fl, case, detail = e["witness"][0]
        if sig in known:
            known_hit.append(sig)
            print("KNOWN-FINDING: property=%s sig=%s %s [%d cases, e.g. %s (%s): %s]" % (pid, sig, known[sig], e["count"], case, fl, detail[:300]))
            continue
        # replay twice before reporting
        rfl, rbin = bins[fl]
        binary = os.path.join(ROOT, "build", tag, rfl, "bin", rbin)
        ok = True
        if ":" in fl:
            # supplementary free-running pass (e.g. ThreadSanitizer): inherently schedule dependent, so a failure
            # is reported only if it can be reproduced at least twice within a few re-runs
            hits = 0
            for _ in range(8):
                rc, sigs, lines, err = replay_case(binary, case, tier=tier)
                if sig in sigs:
                    hits += 1
                if hits >= 2:
                    break
            if hits < 2:
                print("SUPPLEMENTARY-UNCONFIRMED: property=%s sig=%s case=%s (%s) seen once, reproduced %d time(s) in 8 re-runs; not reported" % (pid, sig, case, fl, hits))
                ok = False
        else:
            for _ in range(2):
                rc, sigs, lines, err = replay_case(binary, case, tier=tier)
                if rc == 2:
                    harness_errors.append("replay of %s (%s) ended with a harness error: %s" % (case, fl, err[-800:]))
                    ok = False
                    break
                if sig not in sigs:
                    if sig.startswith("hang/") and not sigs and rc == 0:
                        # the worker did not finish this case within the limit, but the same case, run alone in a fresh
                        # process with three times the limit, completes without any failure: the worker was stalled (machine
                        # load), the case itself has now been executed by the replay. Not a verdict and not a harness error.
                        print("TRANSIENT-STALL: property=%s case=%s (%s) exceeded the per-case time limit in the pool, completed cleanly when replayed alone" % (pid, case, fl))
                        agg["stat"]["transient_stalls"] = agg["stat"].get("transient_stalls", 0) + 1
                        ok = False
                        break
                    harness_errors.append("NONDETERMINISTIC: replay of %s (%s) did not reproduce sig %s (got %s)" % (case, fl, sig, sigs))
                    ok = False
                    break
        if not ok:
            continue
        nrep += 1
        path = os.path.join("replays", "%s-%d.json" % (pid, nrep))
        json.dump({"property": pid, "bin": rbin, "flavour": rfl, "tier": tier, "case": case, "sig": sig, "detail": detail,
                   "cases_with_this_sig": e["count"], "repo": repo,
                   "how": "python3 verif.py replay %s" % path}, open(os.path.join(ROOT, path), "w"), indent=1)
        violations.append((sig, path, case, detail))

    wall = time.time() - t0
    # ---- evidence
    st = agg["stat"]

    def total(suffix):
        return sum(v for k, v in st.items() if k.endswith("." + suffix))
    # per section: executions actually run (harnesses that skip symmetric / out-of-bound index points count "executed")
    evaluations = 0
    for k, v in st.items():
        if k.endswith(".cases") and (k[:-6] + ".executed") not in st:
            evaluations += v
        elif k.endswith(".executed"):
            evaluations += v
    states = total("states")
    transitions = total("transitions") or total("ops") or evaluations
    nontrivial = total("nontrivial")
    samples = []
    for s, lst in sorted(agg["samples"].items()):
        for x in lst[:2]:
            samples.append({"section": s, "case": x})
    distinct_outcomes = {s: len(o) for s, o in agg["outcomes"].items()}
    exhaustive = (not agg["incomplete"]) and not harness_errors
    cov = {
        "evaluations": evaluations,
        "distinct_nontrivial": nontrivial,
        "rule": "; ".join(v for k, v in sorted(agg["info"].items()) if k.endswith(":rule")) or cfg.get("rule", ""),
        "samples": samples[:12],
        "states": states if states else evaluations,
        "transitions": transitions,
        "traces_validated_against_impl": evaluations,
        "exhaustive": exhaustive,
        "bounds": {k: v for k, v in sorted(agg["info"].items()) if not k.endswith(":rule")},
        "sections_wall_s": {n: w for (n, w) in agg["sections"]},
        "counters": st,
        "distinct_outcomes_per_section": distinct_outcomes,
        "incomplete": agg["incomplete"],
        "failure_signatures": {s: by_sig[s]["count"] for s in by_sig},
        "known_findings_reproduced": known_hit,
        "fixed_defects_guarded": fixed,
        "explanation": cfg.get("explanation", ""),
        "states_note": "states = distinct canonical states inserted into the pruning tables where a section prunes, otherwise distinct cases; every case is an execution of the real code (the model is the oracle, so every trace is an implementation trace)",
    }
    ev = {"property_id": pid, "tier": tier, "seed": seed, "level": cfg["level"], "coverage": cov,
          "assumptions": cfg.get("assumptions", []), "wall_s": round(wall, 2), "violations": len(violations),
          "repo": repo, "flavours": flavours}
    # evidence/ describes runs against /repo itself; a run against a scratch copy (--repo) leaves it alone
    evdir = os.path.join(ROOT, "evidence") if tag == "repo" else os.path.join(ROOT, "build", "out", "evidence-" + tag)
    os.makedirs(evdir, exist_ok=True)
    json.dump(ev, open(os.path.join(evdir, pid + ".json"), "w"), indent=1)

    for (sig, path, case, detail) in violations:
        print("VIOLATION property=%s replay=%s sig=%s case=%s %s" % (pid, path, sig, case, detail[:400]))
    print("%s %s: %d cases, %d states, %d transitions, %d nontrivial, outcomes %s, %.1fs%s" % (
        pid, tier, evaluations, cov["states"], transitions, nontrivial, distinct_outcomes, wall,
        "" if exhaustive else " (NOT exhaustive: %s)" % "; ".join(agg["incomplete"])))
    if harness_errors:
        for e in harness_errors:
            print("HARNESS-ERROR:", e)
        return 1 if violations else 2
    return 1 if violations else 0


def cmd_replay(args):
    rp = json.load(open(args.path))
    repo, tag = repo_and_tag(args.repo)
    binary = build(repo, tag, rp["flavour"], rp["bin"])
    if binary is None:
        return 2
    rc, sigs, lines, err = replay_case(binary, rp["case"], tier=rp.get("tier"))
    print("\n".join(lines))
    if err.strip():
        print(err[-3000:])
    if rp["sig"] in sigs:
        print("REPRODUCED property=%s sig=%s" % (rp["property"], rp["sig"]))
        return 1
    print("NOT-REPRODUCED (signatures seen: %s)" % sigs)
    return 0 if rc == 0 else rc


def main():
    ap = argparse.ArgumentParser()
    sub = ap.add_subparsers(dest="cmd")
    r = sub.add_parser("run")
    r.add_argument("id")
    r.add_argument("--tier")
    r.add_argument("--repo")
    r.add_argument("--deadline", type=float)
    r.add_argument("--only")
    p = sub.add_parser("replay")
    p.add_argument("path")
    p.add_argument("--repo")
    sub.add_parser("list")
    a = ap.parse_args()
    if a.cmd == "run":
        sys.exit(cmd_run(a))
    if a.cmd == "replay":
        sys.exit(cmd_replay(a))
    if a.cmd == "list":
        for k, v in sorted(CHECKS.items()):
            print(k, v["bin"], v["flavours"], v["level"])
        sys.exit(0)
    ap.print_help()
    sys.exit(2)


if __name__ == "__main__":
    main()

#!/usr/bin/env python3
"""usage: benigncheck.py <cNN-k> [--all]
Applies /tmp/benign-<cNN-k>/SEED/patch.diff in a scratch worktree of /repo HEAD and runs the quick checks of every property
whose anchor files include a changed file (--all: all 20). Any VIOLATION / HARNESS-ERROR is a candidate false alarm.
Archives the change under /verif/benign/<ID>/ with the result."""
import sys, os, re, json, subprocess, shutil, glob, hashlib
s = sys.argv[1]; allc = '--all' in sys.argv
d = '/tmp/benign-' + s; sid = s.upper()
patch = open(d + '/SEED/patch.diff').read()
files = sorted(set(re.findall(r'^\+\+\+ b/(\S+)', patch, re.M)))
props = [json.loads(l) for l in open('/verif/properties.jsonl')]
rel = [p['id'] for p in props if allc or any(f in p['anchors']['files'] for f in files)]
W = '/tmp/bc-%s-%d' % (s, os.getpid())
subprocess.run(['git', '-C', '/repo', 'worktree', 'add', '--detach', W, 'HEAD'], capture_output=True)
r = subprocess.run(['git', '-C', W, 'apply', d + '/SEED/patch.diff'], capture_output=True, text=True)
if r.returncode:
    print(sid, 'PATCH DOES NOT APPLY', r.stderr[:200]); subprocess.run(['git', '-C', '/repo', 'worktree', 'remove', '--force', W]); sys.exit(2)
tag = 'alt-' + hashlib.md5(W.encode()).hexdigest()[:8]
results = {}
for pid in rel:
    out = subprocess.run(['python3', '/verif/verif.py', 'run', pid, '--repo', W], capture_output=True, text=True).stdout
    bad = [l[:300] for l in out.splitlines() if l.startswith('VIOLATION') or l.startswith('HARNESS-ERROR') or 'BUILD-ERROR' in l]
    results[pid] = bad
    print(sid, pid, 'ALARM' if bad else 'silent', *bad[:3], sep='  ')
subprocess.run(['git', '-C', '/repo', 'worktree', 'remove', '--force', W]); shutil.rmtree('/verif/build/' + tag, ignore_errors=True)
for f in glob.glob('/verif/build/.lock-%s-*' % tag): os.remove(f)
dst = '/verif/benign/' + sid; os.makedirs(dst, exist_ok=True)
for f in glob.glob(d + '/SEED/*'):
    if os.path.isfile(f) and os.path.getsize(f) < 200000 and not os.access(f, os.X_OK): shutil.copy(f, dst)
json.dump({'id': sid, 'files_changed': files, 'checks_run': rel, 'alarms': {k: v for k, v in results.items() if v},
           'written_by': 'independent sub-agent asked for a realistic behaviour-preserving change (saw only the property text)',
           'result': 'all checks silent' if not any(results.values()) else 'ALARMS - see alarms'}, open(dst + '/meta.json', 'w'), indent=1)

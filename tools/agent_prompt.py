#!/usr/bin/env python3
"""Prints the task prompt for a harness-writing sub-agent for property CNN."""
import json, sys, re
pid = sys.argv[1].upper()
prop = [json.loads(l) for l in open('/verif/properties.jsonl') if json.loads(l)['id'] == pid][0]
design = open('/verif/DESIGN.md').read()
m = re.search(r'(### %s .*?)(?=\n### C\d\d |\n-{20,})' % pid, design, re.S)
sec = m.group(1) if m else ''
extra = sys.argv[2] if len(sys.argv) > 2 else ''
print(f"""You are building one verification check for the C/C++ unit-test framework CppUTest (sources in /repo, read-only for you), inside an existing model-checking style framework in /verif. Work autonomously until the check is complete, validated and documented; do not ask questions.

FIRST read /verif/HARNESS_GUIDE.md completely (rules, engine API, file ownership), then /verif/engine/vf.h, /verif/engine/fixture.h and the exemplar /verif/checks/c18_strcache.cpp with /verif/checks/c18.meta.json. Then read the code under test named in the property's anchors.

Your property is {pid}. Its full record (fixed, do not edit):
{json.dumps(prop, indent=1)}

The design already written for it (from /verif/DESIGN.md; 'Suspected (confirmed)' items were reproduced once by throw-away probes and are described in section 4 of DESIGN.md — your check must find them by its own enumeration, then you propose repairs as patch files):
{sec}

{extra}

Deliverables (all under /verif, only files with your check's prefix c{pid[1:]}): checks/c{pid[1:]}_*.cpp (and .c if needed), checks/c{pid[1:]}.meta.json, fixes/c{pid[1:]}-*.patch for genuine defects, notes/c{pid[1:]}.md. Your scratch worktree is /tmp/wt-c{pid[1:]} (create it with `git -C /repo worktree add --detach /tmp/wt-c{pid[1:]} HEAD`), remove it and its build/alt-* directory at the end.

Acceptance: (1) `cd /verif && python3 verif.py run {pid}` and `python3 verif.py run {pid} --tier thorough` both run to completion within budget; on /repo unchanged they report exactly the genuine defects (as VIOLATION lines — that is expected until the repairs are committed by the coordinator) and nothing else; on your worktree with all your fixes/*.patch applied they exit 0; (2) the repository's own test suite passes in the worktree with your patches applied; (3) at least 3 realistic mutants demonstrated caught (documented in notes); (4) evidence/{pid}.json validates: `python3-vt -c "import json,jsonschema;jsonschema.validate(json.load(open('/verif/evidence/{pid}.json')),json.load(open('/root/.vp/EVIDENCE.schema.json')))"`; (5) notes/c{pid[1:]}.md written. Other agents share this 16-core machine, so wall times may be inflated 2-4x; use --workers 8 while developing and always pass --deadline when running a harness binary by hand. /tmp space is limited: delete scratch files when done.

Your final message to the coordinator must be short (under 40 lines): files written; section list with case counts and wall times for both tiers; each genuine defect (sig(s), one-line witness, patch file, whether the repo suite passes with it); any defect without a safe small repair (sig + why); mutants tried and which sig caught each; anything the coordinator must decide or fix in the engine.""")

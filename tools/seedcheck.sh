#!/bin/bash
# usage: tools/seedcheck.sh <seed dir (containing SEED/patch.diff)> <CNN> [more CNN...]
# Applies the seeded change in a scratch worktree of /repo HEAD (so that /repo itself and runs using it are not
# disturbed), runs the quick checks named with --repo, removes the worktree and its build directory.
d=$1; shift
W=/tmp/sc-$(basename $d)-$$
git -C /repo worktree add --detach $W HEAD >/dev/null 2>&1 || { echo "worktree failed"; exit 2; }
git -C $W apply "$d/SEED/patch.diff" || { echo "PATCH DOES NOT APPLY"; git -C /repo worktree remove --force $W; exit 2; }
git -C $W diff --stat | tail -1
tag=alt-$(python3 -c "import hashlib,sys;print(hashlib.md5(sys.argv[1].encode()).hexdigest()[:8])" $W)
for id in "$@"; do
  python3 /verif/verif.py run $id --repo $W 2>&1 | cut -c1-300 | head -6
  echo "exit($id)=${PIPESTATUS[0]}"
done
git -C /repo worktree remove --force $W; rm -rf /verif/build/$tag /verif/build/.lock-$tag-*

#!/bin/bash
# usage: tools/seedcheck.sh <seed dir (containing SEED/patch.diff)> <CNN> [more CNN...]
# applies the seeded change to /repo, runs the quick checks named, reverts. Prints VIOLATION lines / exit codes.
d=$1; shift
git -C /repo apply --check "$d/SEED/patch.diff" || { echo "PATCH DOES NOT APPLY"; exit 2; }
git -C /repo apply "$d/SEED/patch.diff"
git -C /repo diff --stat | tail -1
for id in "$@"; do
  python3 /verif/verif.py run $id 2>&1 | cut -c1-300 | head -6
  echo "exit($id)=${PIPESTATUS[0]}"
done
git -C /repo checkout -- .
git -C /repo status --short | head -3

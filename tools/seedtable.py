#!/usr/bin/env python3
"""Rewrites the seeded-changes table in DESIGN.md (between the SEEDTABLE markers) from seeded/*/meta.json."""
import json, glob, os, re
R = os.path.dirname(os.path.dirname(os.path.abspath(__file__)))
rows = []
for f in sorted(glob.glob(R + '/seeded/*/meta.json')):
    m = json.load(open(f)); d = os.path.dirname(f)
    patch = open(d + '/patch.diff').read()
    files = sorted(set(re.findall(r'^\+\+\+ b/(\S+)', patch, re.M)))
    ver = 'yes' if os.path.exists(d + '/verified.txt') and 'exit 0; with the change: exit' in open(d + '/verified.txt').read() else 'pending'
    rows.append('| %s | %s | %s | %s | %s |' % (m['id'], ', '.join(os.path.basename(x) for x in files), m['outcome'].replace('|', '/'), '; '.join(m['signatures_reported'])[:160].replace('|', '/'), ver))
caught = sum(1 for r in rows if '| caught' in r)
other = sum(1 for r in rows if '| not caught by' in r)
table = ('%d changes, %d caught by the check as it was, %d missed at first and caught after the check was strengthened (what was added is in the outcome column)' % (len(rows), caught, len(rows) - caught - other)
         + (', %d outside the anchor of the property they were written for and caught by the check of the property that owns the changed code' % other if other else '') + '.\n\n'
         '| id | file changed | outcome | signature(s) reported | independently re-verified (suite passes, demo fails with / passes without) |\n|---|---|---|---|---|\n') + '\n'.join(rows) + '\n'
p = R + '/DESIGN.md'; s = open(p).read()
a = s.index('<!-- SEEDTABLE -->'); b = s.index('<!-- /SEEDTABLE -->')
s = s[:a] + '<!-- SEEDTABLE -->\n' + table + s[b:]
open(p, 'w').write(s)
print(len(rows), 'rows;', caught, 'caught at once')

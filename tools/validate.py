#!/usr/bin/env python3-vt
"""Validates MANIFEST.json and every evidence file against the schemas; checks manifest/evidence consistency."""
import json, glob, os, sys, jsonschema
R = os.path.dirname(os.path.dirname(os.path.abspath(__file__)))
ok = True
m = json.load(open(R + '/MANIFEST.json'))
jsonschema.validate(m, json.load(open('/root/.vp/MANIFEST.schema.json')))
es = json.load(open('/root/.vp/EVIDENCE.schema.json'))
props = [json.loads(l)['id'] for l in open(R + '/properties.jsonl')]
claimed = [c['property_id'] for c in m['checks']]
na = [c['property_id'] for c in m.get('not_applicable', [])]
for p in props:
    if (p in claimed) == (p in na):
        print('INCONSISTENT', p); ok = False
for c in m['checks']:
    f = c['evidence_file']
    if not os.path.exists(f):
        print('MISSING evidence', f); ok = False; continue
    ev = json.load(open(f))
    try:
        jsonschema.validate(ev, es)
    except Exception as e:
        print('INVALID', f, str(e)[:200]); ok = False; continue
    if ev['level'] != c['level_claimed']['category']:
        print('LEVEL MISMATCH', f); ok = False
    cov = ev['coverage']
    print('%s %-8s %-17s eval=%-10d nontrivial=%-9d states=%-10d exhaustive=%s viol=%d wall=%.0fs' % (ev['property_id'], ev['tier'], ev['level'], cov.get('evaluations', 0), cov.get('distinct_nontrivial', 0), cov.get('states', 0), cov.get('exhaustive'), ev.get('violations', 0), ev['wall_s']))
print('OK' if ok else 'PROBLEMS')
sys.exit(0 if ok else 1)

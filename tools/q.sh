#!/bin/bash
# usage: tools/q.sh CNN [CNN...]  -- runs the quick tier on /repo and prints exit code, number of VIOLATION / HARNESS-ERROR / KNOWN-FINDING lines and whether the run was exhaustive
for c in "$@"; do
  out=$(python3 /verif/verif.py run $c 2>&1); rc=$?
  echo "$c exit=$rc viol=$(grep -c '^VIOLATION' <<<"$out") harness=$(grep -c 'HARNESS-ERROR' <<<"$out") known=$(grep -c '^KNOWN-FINDING' <<<"$out") $(grep -q 'NOT exhaustive' <<<"$out" && echo NOT-EXHAUSTIVE) $(tail -1 <<<"$out" | grep -o '[0-9.]*s\( (NOT.*\)\?$' | cut -c1-80)"
  grep '^VIOLATION\|HARNESS-ERROR' <<<"$out" | head -3 | cut -c1-300
done

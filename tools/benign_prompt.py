#!/usr/bin/env python3
"""Prompt for a sub-agent that writes a BENIGN change: realistic refactoring / change of unspecified internals that keeps the property (and all documented behaviour) intact."""
import json, sys
pid = sys.argv[1].upper(); k = sys.argv[2] if len(sys.argv) > 2 else "1"
prop = [json.loads(l) for l in open('/verif/properties.jsonl') if json.loads(l)['id'] == pid][0]
wt = f"/tmp/benign-{pid.lower()}-{k}"
print(f"""You are a careful C++ engineer helping to evaluate a verification tool for FALSE ALARMS. Your job: make ONE realistic, non-trivial change to the CppUTest unit-test framework that does NOT break the semantic property below and keeps all documented/observable behaviour that users rely on, but changes how the code works inside - the kind of refactoring, clean-up, optimisation or change of UNSPECIFIED behaviour a maintainer might commit. A good verification tool must stay silent on it. You work ONLY inside your own scratch git worktree {wt} (create it first: `git -C /repo worktree add --detach {wt} HEAD`). Do NOT read, list or use anything under /verif, do not modify /repo itself, never use `git stash`. Do not ask questions; work autonomously.

The property that must KEEP holding (title, statement, quantifier, anchors):
TITLE: {prop['title']}
STATEMENT: {prop['statement']}
QUANTIFIED OVER: {prop['quantifier']['text']}
ANCHOR FILES: {', '.join(prop['anchors']['files'])}

Make the change inside the anchor files (the code this property is about). Aim for something substantial (20-80 changed lines is fine) and varied, for example: restructure a loop or a linked-list traversal (keeping its result), change an internal data-structure policy that no documentation promises (e.g. insertion at tail instead of head of an internal list where order is not observable through the documented API, a different but equally valid internal capacity / growth constant, a different hash constant where bucket choice is not observable), split or merge helper functions, replace hand-written loops by calls to existing helpers (or the reverse), reorder independent statements, cache a value that is recomputed, rename private members, tighten types, add defensive checks that can never fire, change the exact wording of a diagnostic sentence ONLY where the property does not quote or constrain that text and the project's tests do not pin it. Think hard about each edit: if in doubt whether something is observable or specified, do not change it. The result must be behaviourally equivalent for every input the property quantifies over (or differ only in behaviour that the statement above leaves open).

Requirements:
1. The project still builds and its existing tests still pass: `cd {wt} && cmake -G Ninja -B _build -S . >/dev/null && (cmake --build _build -- -k 0 >/dev/null 2>&1; true) && ctest --test-dir _build -j4 2>&1 | tail -3` (some gtest-dependent targets fail to build in this sandbox - expected; every ctest entry that exists must pass).
2. Write a small self-contained program `demo.cpp` (own main(), link against `_build/src/CppUTest/libCppUTest.a` and, if needed, `_build/src/CppUTestExt/libCppUTestExt.a`, with `-Iinclude -I_build -DHAVE_CONFIG_H`) that exercises the changed code on a few dozen representative and corner-case inputs and prints the observable results; run it against the changed sources and against the baseline sources (compile the baseline version of the changed file from `git show HEAD:<file>` in front of the library) and confirm the outputs are IDENTICAL (diff them).

Deliverables, all inside {wt}/SEED/ : `patch.diff` (output of `git -C {wt} diff -- src include`), `demo.cpp`, `README.md` with: what you changed and why it is behaviour-preserving with respect to the property (be specific about each edit), the demo commands, the diff result, and the ctest summary line. Leave the worktree in place. Your final message: under 12 lines - files/functions changed, one-line description of each edit, demo outputs identical yes/no, ctest result.""")

#!/bin/bash
# usage: tools/reseed.sh <ID e.g. C08-7> [CNN ...]  -- re-runs a stored seeded change (seeded/<ID>/patch.diff) against the named checks (default: its own property)
id=$1; shift; props="$@"; [ -z "$props" ] && props=${id%%-*}
R=$(cd "$(dirname "$0")/.." && pwd)
T=$(mktemp -d /tmp/reseed-XXXXXX); mkdir $T/SEED; if [ -f $R/seeded/$id/patch_rebased_on_dce82ce.diff ] && ! git -C /repo apply --check $R/seeded/$id/patch.diff 2>/dev/null; then cp $R/seeded/$id/patch_rebased_on_dce82ce.diff $T/SEED/patch.diff; else cp $R/seeded/$id/patch.diff $T/SEED/; fi
$R/tools/seedcheck.sh $T $props; rm -rf $T

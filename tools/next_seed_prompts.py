#!/usr/bin/env python3
"""Generates the next seed prompt for each property given on the command line, telling the author which mechanisms were already tried (from seeded/*/README.md first lines)."""
import sys, os, glob, json, re, subprocess
R='/verif'
THEMES=['a reset / cleanup / restore step that is skipped on one rarely taken path (early return, failure path, second use of the same object, second repetition)',
 'a boundary: the exact size, length, count or index at which a fast path, a fixed buffer, a table row or a wrap-around changes behaviour (wrong only at or just past the limit)',
 'a family of near-identical functions or branches (one per type, per width, per option spelling, per output kind): one member wired to its neighbour or missing one step the others have',
 'an interaction of two features that are each fine alone (option A together with option B; one facility used from inside another facility\'s callback or failure path)',
 'order dependence: right when operations come in the usual order, wrong in a legal unusual order (reverse registration, removing a middle element, re-entry, interleaving two objects, calling a query between two steps)']
for pid in sys.argv[1:]:
    tried=[]
    ks=[]
    for d in sorted(glob.glob(R+'/seeded/%s-*'%pid)):
        ks.append(int(d.rsplit('-',1)[1]))
        patch=open(d+'/patch.diff').read()
        files=sorted(set(re.findall(r'^\+\+\+ b/(\S+)',patch,re.M)))
        funcs=sorted(set(re.findall(r'^@@.*@@ (.*)$',patch,re.M)))
        # the hunk header names the function *preceding* the change when the change is at a function's start, so
        # the first removed and added lines are quoted too: enough for an author to recognise the mechanism
        minus=[l[1:].strip() for l in patch.splitlines() if l.startswith('-') and not l.startswith('---') and len(l.strip())>3]
        plus=[l[1:].strip() for l in patch.splitlines() if l.startswith('+') and not l.startswith('+++') and len(l.strip())>3]
        quote=''
        if minus: quote+=' removed `%s`'%minus[0][:90]
        if plus: quote+=' added `%s`'%plus[0][:90]
        tried.append('%s (near %s;%s)'%(', '.join(files), '; '.join(f.strip()[:70] for f in funcs[:2]), quote))
    k=max(ks+[0])+1
    hint='Changes already tried for this property (do NOT repeat these mechanisms or functions; pick a different function or a different aspect of the property): '+' | '.join(tried)+'.'
    hint+=' Suggested theme for this attempt (follow it if the code offers an opportunity, otherwise choose freely): '+THEMES[(int(pid[1:])+k)%5]+'.'
    out=subprocess.run(['python3',R+'/tools/seed_prompt.py',pid,str(k),hint],capture_output=True,text=True).stdout
    open('/tmp/seedprompts/%s-%d.txt'%(pid,k),'w').write(out)
    print(pid,k)

#!/usr/bin/env python3
"""Generates the next seed prompt for each property given on the command line, telling the author which mechanisms were already tried (from seeded/*/README.md first lines)."""
import sys, os, glob, json, re, subprocess
R='/verif'
for pid in sys.argv[1:]:
    tried=[]
    ks=[]
    for d in sorted(glob.glob(R+'/seeded/%s-*'%pid)):
        ks.append(int(d.rsplit('-',1)[1]))
        patch=open(d+'/patch.diff').read()
        files=sorted(set(re.findall(r'^\+\+\+ b/(\S+)',patch,re.M)))
        funcs=sorted(set(re.findall(r'^@@.*@@ (.*)$',patch,re.M)))
        tried.append('%s (%s)'%(', '.join(files), '; '.join(f.strip()[:70] for f in funcs[:2])))
    k=max(ks+[0])+1
    hint='Changes already tried for this property (do NOT repeat these mechanisms or functions; pick a different function or a different aspect of the property): '+' | '.join(tried)+'.'
    out=subprocess.run(['python3',R+'/tools/seed_prompt.py',pid,str(k),hint],capture_output=True,text=True).stdout
    open('/tmp/seedprompts/%s-%d.txt'%(pid,k),'w').write(out)
    print(pid,k)

#!/usr/bin/env python3
"""Collects 'CNN thorough: N cases ... Ts' lines from log files given on the command line into tools/thorough_results.json."""
import re, sys, json, os
R = os.path.dirname(os.path.dirname(os.path.abspath(__file__)))
p = R + '/tools/thorough_results.json'
res = json.load(open(p)) if os.path.exists(p) else {}
for f in sys.argv[1:]:
    for line in open(f, errors='replace'):
        m = re.match(r'(C\d\d) thorough: (\d+) cases, (\d+) states.*?, ([\d.]+)s(.*)', line)
        if m:
            ne = 'NOT exhaustive' in m.group(5)
            res[m.group(1)] = '%s cases, %.0f s%s' % (format(int(m.group(2)), ','), float(m.group(4)), ' (deadline cut a section)' if ne else ', exhaustive, exit 0')
json.dump(res, open(p, 'w'), indent=1, sort_keys=True)
print(res)

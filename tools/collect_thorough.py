#!/usr/bin/env python3
"""usage: collect_thorough.py <vp run number>[:C01,C02,...] ...   -- collects the thorough-tier results of `vp run` snapshots from the
evidence files the runs wrote inside their snapshot (/root/.vp/runs/<n>/verif/evidence) into tools/thorough_results.json.
Later arguments override earlier ones for the properties they name (all properties when no list is given)."""
import json, glob, os, sys
R = os.path.dirname(os.path.dirname(os.path.abspath(__file__)))
p = R + '/tools/thorough_results.json'
res = json.load(open(p)) if os.path.exists(p) else {}
for arg in sys.argv[1:]:
    run, _, ids = arg.partition(':'); ids = set(ids.split(',')) if ids else None
    for f in sorted(glob.glob('/root/.vp/runs/%s/verif/evidence/C*.json' % run)):
        e = json.load(open(f)); pid = e['property_id']
        if (ids and pid not in ids) or e['tier'] != 'thorough':
            continue
        c = e['coverage']; ev = c.get('evaluations'); n = sum(ev.values()) if isinstance(ev, dict) else ev
        inc = c.get('incomplete') or []
        ok = c.get('exhaustive') and not e['violations']
        res[pid] = '%s cases, %.0f s%s' % (format(int(n), ','), e['wall_s'], ', exhaustive, exit 0' if ok else ' (%s)' % ('; '.join(map(str, inc))[:80] if inc else 'violations=%d' % e['violations']))
json.dump(res, open(p, 'w'), indent=1, sort_keys=True)
print(res)

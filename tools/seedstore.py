#!/usr/bin/env python3
"""usage: seedstore.py <seed dir> <id e.g. C18-1> <property> <caught|missed-then-strengthened|missed> <sigs...>  -- archives a seeded change under /verif/seeded/<id>/"""
import sys, os, shutil, json, glob, subprocess
d, sid, prop, status = sys.argv[1:5]; sigs = sys.argv[5:]
dst = '/verif/seeded/' + sid
os.makedirs(dst, exist_ok=True)
for f in glob.glob(d + '/SEED/*'):
    if os.path.isfile(f) and os.path.getsize(f) < 200000 and not os.access(f, os.X_OK):
        shutil.copy(f, dst)
readme = open(d + '/SEED/README.md').read() if os.path.exists(d + '/SEED/README.md') else ''
base = subprocess.run(['git', '-C', d, 'rev-parse', '--short', 'HEAD'], capture_output=True, text=True).stdout.strip()
meta = {
    "id": sid, "property": prop, "written_by": "independent sub-agent that saw only the property text and a scratch worktree",
    "base_commit": base,
    "what_it_needs_to_manifest": "see README.md (author's description)",
    "confirmed_by_coordinator": "patch applies to /repo; repository suite result and demo with/without as recorded in README.md by the author; coordinator ran tools/seedcheck.sh (apply to /repo, quick check, revert)",
    "check_run": "python3 verif.py run %s (quick tier) with the patch applied to /repo, reverted afterwards" % prop,
    "outcome": status, "signatures_reported": sigs,
}
json.dump(meta, open(dst + '/meta.json', 'w'), indent=1)
print('stored', dst, os.listdir(dst))

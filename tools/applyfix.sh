#!/bin/bash
# usage: tools/applyfix.sh <patch> <commit message file>  -- applies a fix patch to /repo, runs the repository suite, commits
set -e
cd /repo
git apply --check "$1"
git apply "$1"
cmake --build _build -- -k 0 >/dev/null 2>&1 || true
out=$(ctest --test-dir _build -j8 --timeout 900 2>&1 | tail -4)
echo "$out" | grep -q "100% tests passed" || { echo "SUITE FAILED"; echo "$out"; git checkout -- .; exit 1; }
# the build directory of /repo holds the baseline suite only; the full suite (mock tests included) is built and run in a
# scratch worktree so that a repair never breaks a repository test outside the baseline either
W=/tmp/applyfix-full-$$; git worktree add --detach $W HEAD >/dev/null 2>&1; git -C $W apply "$1"
( cd $W && cmake -G Ninja -B _build -S . >/dev/null 2>&1 && (cmake --build _build -- -k 0 >/dev/null 2>&1; true) )
full=$(ctest --test-dir $W/_build -j8 --timeout 900 2>&1 | tail -4); git worktree remove --force $W
echo "$full" | grep -q "100% tests passed" || { echo "FULL SUITE FAILED"; echo "$full"; git checkout -- .; exit 1; }
git commit -qa -F "$2"
git log --oneline | head -1

#!/bin/bash
# usage: tools/applyfix.sh <patch> <commit message file>  -- applies a fix patch to /repo, runs the repository suite, commits
set -e
cd /repo
git apply --check "$1"
git apply "$1"
cmake --build _build -- -k 0 >/dev/null 2>&1 || true
out=$(ctest --test-dir _build -j8 --timeout 900 2>&1 | tail -4)
echo "$out" | grep -q "100% tests passed" || { echo "SUITE FAILED"; echo "$out"; git checkout -- .; exit 1; }
git commit -qa -F "$2"
git log --oneline | head -1

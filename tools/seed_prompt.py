#!/usr/bin/env python3
"""Prompt for an independent mutation-seeding sub-agent: gets ONLY the property text and a scratch worktree."""
import json, sys
pid = sys.argv[1].upper(); k = sys.argv[2] if len(sys.argv) > 2 else "1"
hint = sys.argv[3] if len(sys.argv) > 3 else ""
prop = [json.loads(l) for l in open('/verif/properties.jsonl') if json.loads(l)['id'] == pid][0]
wt = f"/tmp/seed-{pid.lower()}-{k}"
print(f"""You are a careful C++ engineer helping to evaluate a verification tool. Your job: make ONE realistic change to the CppUTest unit-test framework that BREAKS the semantic property below, while the code still compiles and the project's existing test suite still passes. You work ONLY inside your own scratch git worktree {wt} (create it first: `git -C /repo worktree add --detach {wt} HEAD`). Do NOT read, list or use anything under /verif, and do not modify /repo itself. Do not ask questions; work autonomously.

The property (title, statement, quantifier, and the code it is anchored in):
TITLE: {prop['title']}
STATEMENT: {prop['statement']}
QUANTIFIED OVER: {prop['quantifier']['text']}
WHY ORDINARY TESTS DO NOT SETTLE IT: {prop['why_tests_cant']}
ANCHOR FILES: {', '.join(prop['anchors']['files'])}

Requirements for the change:
1. It is a plausible bug a maintainer could introduce (off-by-one, dropped guard or reset, wrong comparison, state not restored on one path, check-then-act reordering, stale cached value, cursor advanced too early, two sites that each look fine alone...). Not sabotage: no `if (magic input)` special cases, no deleting the feature, no random behaviour.
2. It needs something SPECIFIC to manifest - a particular multi-step sequence of operations, a particular combination of inputs, a particular interleaving or fault point, an unusual but legal value - so that ordinary use and the existing tests do not expose it at once. {hint}
3. The project still builds and its existing tests still pass with the change. Build and run them in your worktree: `cd {wt} && cmake -G Ninja -B _build -S . >/dev/null && (cmake --build _build -- -k 0 >/dev/null 2>&1; true) && ctest --test-dir _build -j4 2>&1 | tail -3` (some gtest-dependent targets fail to build in this sandbox - that is expected and the same without your change; every ctest entry that exists must pass). Other agents share this machine: use -j4 and be patient.
4. You demonstrate the breakage with a small self-contained program or test (C++ file with its own main(), compiled against the worktree's sources - e.g. compile `src/CppUTest/*.cpp src/CppUTestExt/*.cpp src/Platforms/Gcc/UtestPlatform.cpp` with `-Iinclude -I_build -DHAVE_CONFIG_H` plus your demo; or link against `_build/src/CppUTest/libCppUTest.a` and `_build/src/CppUTestExt/libCppUTestExt.a`) that FAILS (non-zero exit / visibly wrong output) with your change and PASSES without it (NEVER use `git stash`: the stash is shared between all worktrees of this repository and other agents work in parallel; to get the baseline use `git diff -- src include > /tmp/p-$$.diff && git apply -R /tmp/p-$$.diff` ... rebuild ... `git apply /tmp/p-$$.diff`, or compile the baseline sources from `git show HEAD:<file>`). State the exact commands.

Deliverables, all inside {wt}/SEED/ : `patch.diff` (output of `git -C {wt} diff -- src include`, the change only), `demo.cpp` (or demo.c), `README.md` with: what the change is and why it breaks the property (2-5 lines), what specific circumstances it needs to manifest, the exact build/run commands for the demonstration and their observed output with and without the change, and the ctest summary line with the change applied. Leave the worktree in place (the coordinator removes it). Your final message: under 15 lines - file changed, one-line description, what it needs to manifest, demo result with/without, ctest result.""")

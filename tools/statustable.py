#!/usr/bin/env python3
"""Rewrites the per-property status table in DESIGN.md (between STATUSTABLE markers) from checks/*.meta.json, evidence/*.json, seeded/*/meta.json and thorough results (tools/thorough_results.json if present)."""
import json, glob, os
R = os.path.dirname(os.path.dirname(os.path.abspath(__file__)))
thor = json.load(open(R + '/tools/thorough_results.json')) if os.path.exists(R + '/tools/thorough_results.json') else {}
seeds = {}
for f in glob.glob(R + '/seeded/*/meta.json'):
    m = json.load(open(f)); seeds.setdefault(m['property'], []).append(m)
rows = []
for f in sorted(glob.glob(R + '/checks/c[0-9][0-9].meta.json')):
    pid = os.path.basename(f)[:3].upper(); m = json.load(open(f))
    ev = json.load(open(R + '/evidence/%s.json' % pid)) if os.path.exists(R + '/evidence/%s.json' % pid) else None
    srcs = ', '.join(sorted(os.path.basename(x) for x in glob.glob(R + '/checks/%s_*' % pid.lower())))
    fl = m['flavours']; fl = fl if isinstance(fl, list) else fl.get('quick')
    q = '%s cases, %d sections, %.0f s' % (format(ev['coverage']['evaluations'], ','), len(ev['coverage']['sections_wall_s']), ev['wall_s']) if ev and ev['tier'] == 'quick' else '-'
    t = thor.get(pid, '-')
    sd = seeds.get(pid, []); caught = sum(1 for x in sd if x['outcome'].startswith('caught'))
    other = sum(1 for x in sd if x['outcome'].startswith('not caught by'))
    rows.append('| %s | %s | %s | %s | %s | %s | %d of %d at once, %d after strengthening%s |' % (pid, srcs, m['level'], '+'.join(fl), q, t, caught, len(sd), len(sd) - caught - other, (', %d by the check of the property that owns the changed code' % other) if other else ''))
table = '| id | harness | level | flavours (quick) | quick tier on /repo (last run) | thorough tier | seeded changes caught |\n|---|---|---|---|---|---|---|\n' + '\n'.join(rows) + '\n'
p = R + '/DESIGN.md'; s = open(p).read()
a = s.index('<!-- STATUSTABLE -->'); b = s.index('<!-- /STATUSTABLE -->')
s = s[:a] + '<!-- STATUSTABLE -->\n' + table + s[b:]
open(p, 'w').write(s); print(len(rows), 'rows')

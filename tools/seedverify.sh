#!/bin/bash
# usage: tools/seedverify.sh <ID e.g. C18-1>   -- independent confirmation of a stored seeded change in a scratch worktree:
#   (1) patch applies, (2) project builds and its ctest suite passes with the patch, (3) demo passes without / fails with the patch.
# Appends the result to /verif/seeded/<ID>/verified.txt. Scratch worktree is removed afterwards.
id=$1; S=/verif/seeded/$id; W=/tmp/sv-$id
base=$(python3 -c "import json;print(json.load(open('$S/meta.json'))['base_commit'])")
git -C /repo cat-file -e $base 2>/dev/null || base=HEAD
rm -rf $W; git -C /repo worktree prune; git -C /repo worktree add --detach $W $base >/dev/null 2>&1 || { echo "worktree failed"; exit 2; }
cd $W
demo=$(ls $S/demo.c* | head -1)
extra=""; grep -q CPPUTEST_VERIF_HOOKS $S/README.md $demo 2>/dev/null && extra="-DCPPUTEST_VERIF_HOOKS"
cmake -G Ninja -B _build -S . >/dev/null 2>&1
build_demo() { # $1 = output
  g++ -O0 -w -std=c++17 -Iinclude -I_build -DHAVE_CONFIG_H $extra -pthread src/CppUTest/*.cpp src/CppUTestExt/*.cpp src/Platforms/Gcc/UtestPlatform.cpp $demo -o $1 2>&1 | tail -3
}
build_demo /tmp/sv-$id-without; ( cd $W; timeout 120 /tmp/sv-$id-without >/tmp/sv-$id-without.out 2>&1 ); rc_without=$?
git apply $S/patch.diff || { echo "PATCH DOES NOT APPLY" | tee -a $S/verified.txt; exit 1; }
(cmake --build _build -- -k 0 >/dev/null 2>&1; true)
suite=$(ctest --test-dir _build -j4 --timeout 600 2>&1 | grep "tests passed\|tests failed" | tail -1)
build_demo /tmp/sv-$id-with; ( cd $W; timeout 120 /tmp/sv-$id-with >/tmp/sv-$id-with.out 2>&1 ); rc_with=$?
{
  echo "verified $(date -u +%FT%TZ) in scratch worktree $W at $base:"
  echo "  repository suite with the change: $suite"
  echo "  demonstration without the change: exit $rc_without; with the change: exit $rc_with"
  echo "  last line without: $(tail -1 /tmp/sv-$id-without.out | cut -c1-160)"
  echo "  last line with:    $(tail -1 /tmp/sv-$id-with.out | cut -c1-160)"
} | tee -a $S/verified.txt
cd /; git -C /repo worktree remove --force $W; rm -f /tmp/sv-$id-with* 

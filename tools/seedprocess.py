#!/usr/bin/env python3
"""usage: seedprocess.py <cNN-k> [...]   e.g. c01-3 c02-3
For each seed dir /tmp/seed-<cNN-k>: run tools/seedcheck.sh against the property's quick check; if VIOLATION lines appear,
archive as 'caught' with the signatures (tools/seedstore.py) and remove the scratch worktree; otherwise print MISSED and leave it."""
import sys, subprocess, re, os
def handle(s):
    d = '/tmp/seed-' + s
    prop = s.split('-')[0].upper(); sid = s.upper()
    if not os.path.exists(d + '/SEED/patch.diff'):
        print(sid, 'NO PATCH'); return
    out = subprocess.run(['/verif/tools/seedcheck.sh', d, prop], capture_output=True, text=True).stdout
    sigs = sorted(set(re.findall(r'VIOLATION property=\S+ replay=\S+ sig=(\S+)', out)))
    if 'PATCH DOES NOT APPLY' in out:
        print(sid, 'PATCH DOES NOT APPLY to HEAD'); return
    if sigs:
        subprocess.run(['python3', '/verif/tools/seedstore.py', d, sid, prop, 'caught'] + sigs[:6], stdout=subprocess.DEVNULL)
        subprocess.run(['git', '-C', '/repo', 'worktree', 'remove', '--force', d], stdout=subprocess.DEVNULL, stderr=subprocess.DEVNULL)
        print(sid, 'CAUGHT', ' '.join(sigs[:4]))
    else:
        tail = [l for l in out.splitlines() if l.startswith(prop) or 'HARNESS' in l or 'exit(' in l]
        print(sid, 'MISSED', ' | '.join(t[:160] for t in tail[-3:]))
        # which other properties are anchored in the changed files? run their checks too (triage only)
        import json
        patch = open(d + '/SEED/patch.diff').read()
        files = set(re.findall(r'^\+\+\+ b/(\S+)', patch, re.M))
        others = [json.loads(l)['id'] for l in open('/verif/properties.jsonl') if set(json.loads(l)['anchors']['files']) & files and json.loads(l)['id'] != prop]
        for o in others:
            out2 = subprocess.run(['/verif/tools/seedcheck.sh', d, o], capture_output=True, text=True).stdout
            sigs2 = sorted(set(re.findall(r'VIOLATION property=\S+ replay=\S+ sig=(\S+)', out2)))
            print('   ', sid, 'under', o + ':', 'CAUGHT ' + ' '.join(sigs2[:3]) if sigs2 else 'silent')

import concurrent.futures as cf
with cf.ThreadPoolExecutor(3) as ex:
    list(ex.map(handle, sys.argv[1:]))

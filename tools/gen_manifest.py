#!/usr/bin/env python3
"""Regenerates MANIFEST.json from checks/registry.py (single source of truth)."""
import json, os, sys
ROOT = os.path.dirname(os.path.dirname(os.path.abspath(__file__)))
sys.path.insert(0, ROOT)
from checks.registry import CHECKS, NOT_APPLICABLE, HOOK_COMMITS  # noqa: E402

props = [json.loads(l)["id"] for l in open(os.path.join(ROOT, "properties.jsonl"))]
checks = []
for pid in props:
    if pid not in CHECKS:
        continue
    c = CHECKS[pid]
    checks.append({
        "property_id": pid,
        "quick_cmd": "python3 verif.py run %s --tier quick" % pid,
        "thorough_cmd": "python3 verif.py run %s --tier thorough" % pid,
        "evidence_file": "/verif/evidence/%s.json" % pid,
        "replay_cmd_template": "python3 verif.py replay {path}",
        "engine": "vf",
        "level_claimed": {"category": c["level"], "text": c["level_text"], "design_ref": c.get("design_ref", "DESIGN.md section 3, " + pid)},
        "level_note": c["level_note"],
        "technique": c["technique"],
    })
na = [{"property_id": p, "reason": NOT_APPLICABLE.get(p, "check not built yet in this round; see DESIGN.md section 3 for the planned exploration")} for p in props if p not in CHECKS]
m = {
    "version": 1,
    "setup_cmd": "make -s -j16 setup",
    "hooks": {
        "guard": "CPPUTEST_VERIF_HOOKS",
        "enable": "checks compile /repo/src themselves (Makefile) with -DCPPUTEST_VERIF_HOOKS; the repository's own cmake build never defines it",
        "baseline_off_cmd": "cmake --build /repo/_build -- -k 0 >/dev/null 2>&1; ctest --test-dir /repo/_build -j8 --timeout 900",
        "source_commits": HOOK_COMMITS,
        "add_only": True,
    },
    "engines": [{
        "name": "vf", "path": "/verif/engine/vf.h",
        "serves_properties": [p for p in props if p in CHECKS],
        "kind_free_text": "stateless bounded exhaustive explorer on the real code: indexed operand-lattice sweeps and choice-vector DFS (prefix replay, optional canonical-state pruning), fork pool with per-case crash/hang attribution, replay of single cases; cooperative preemption-bounded thread scheduler for C10",
    }],
    "checks": checks,
    "not_applicable": na,
    "notes": "All checks rebuild the library from /repo's working tree (or $VERIF_REPO) into /verif/build. known_findings.txt lists recorded genuine defects (known:) and repaired ones (fixed:). Exit 2 = harness error, never a verdict.",
}
json.dump(m, open(os.path.join(ROOT, "MANIFEST.json"), "w"), indent=1)
print("MANIFEST.json: %d checks, %d not_applicable" % (len(checks), len(na)))

#!/bin/bash
# usage: tools/mutant.sh <CNN> <python-snippet-file that edits /repo>   -- applies, runs quick check, reverts
id=$1; shift
python3 "$@" || { echo "mutation failed to apply"; git -C /repo checkout -- .; exit 2; }
git -C /repo diff --stat | tail -1
python3 /verif/verif.py run $id 2>&1 | cut -c1-260 | head -${LINES_MAX:-8}
echo "exit=${PIPESTATUS[0]}"
git -C /repo checkout -- .

#!/usr/bin/env python3
"""usage: seedregress.py [-j N] [ID ...]   -- re-runs stored seeded changes (all by default) against the CURRENT checks in scratch
worktrees and reports any that is no longer caught. A change recorded as belonging to another property's check
(signature 'Cxx:...') is run against that check. Results: tools/seedregress_results.json."""
import sys, os, json, glob, re, subprocess, concurrent.futures as cf
R = os.path.dirname(os.path.dirname(os.path.abspath(__file__)))
args = sys.argv[1:]; jobs = 3
if args[:1] == ['-j']: jobs = int(args[1]); args = args[2:]
ids = args or sorted(os.path.basename(os.path.dirname(f)) for f in glob.glob(R + '/seeded/*/meta.json'))
def one(i):
    m = json.load(open('%s/seeded/%s/meta.json' % (R, i)))
    prop = m['property']
    for s in m.get('signatures_reported', []):
        mm = re.match(r'(C\d\d):', s)
        if mm: prop = mm.group(1)
    out = subprocess.run([R + '/tools/reseed.sh', i, prop], capture_output=True, text=True).stdout
    sigs = sorted(set(re.findall(r'VIOLATION property=\S+ replay=\S+ sig=(\S+)', out)))
    return i, prop, sigs, ('exit(%s)=1' % prop) in out
res = {}
with cf.ThreadPoolExecutor(jobs) as ex:
    for i, prop, sigs, ok in ex.map(one, ids):
        res[i] = {'check': prop, 'caught': bool(sigs) and ok, 'signatures': sigs[:6]}
        print(i, prop, 'CAUGHT' if res[i]['caught'] else 'NOT CAUGHT', ' '.join(sigs[:2])[:120], flush=True)
p = R + '/tools/seedregress_results.json'
old = json.load(open(p)) if os.path.exists(p) else {}
old.update(res); json.dump(old, open(p, 'w'), indent=1, sort_keys=True)
lost = [i for i in res if not res[i]['caught']]
print('%d re-run, %d caught, not caught: %s' % (len(res), len(res) - len(lost), lost))
